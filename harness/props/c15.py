"""
C15 — NIP-42 authentication succeeds only for a fresh, correctly signed answer.
Tie: the real Authenticator.authenticate under an injected clock vs the Lean `authenticate`, with the
signature facts computed independently.  Search: the whole neighbourhood of a valid answer (kind, age at
±599/±600/±601 s, relay url exact / substring / empty / missing, challenge exact / prefix / empty / other
connection's / missing, duplicated and value-less tags, bad signature, non-dict payloads); a token is
obtained only when every condition holds and it names the signer; through web.start_client: a failed AUTH
leaves the connection's identity unchanged, challenges are distinct per connection.
"""
import asyncio
import copy
import json
import random

from lib import common
from props.c03 import facts_of

THEOREMS_TIED = ["C15_authenticate_ok", "C15_failed_auth_keeps_identity"]

NOW = 1700000000
URLS = ["ws://localhost:6969", "wss://relay.example/"]


class _Storage:
    def __init__(self):
        self.roles = {}

    async def get_auth_roles(self, pubkey):
        return set(self.roles.get(pubkey, "a"))


def make_auth(urls):
    from nostr_relay import auth

    auth.time = lambda: NOW
    opts = {"enabled": True, "actions": {"save": "w", "query": "a"}}
    if urls is not None:
        opts["relay_urls"] = urls
    return auth.Authenticator(_Storage(), opts)


def py_verifies(f):
    if f is None:
        return "none"
    if not f["pubkeyParses"]:
        return False
    if not f["sigDecodes"]:
        return "none"
    for d in f["delegations"]:
        if d is None:
            return "none"
        if d is False:
            return False
    return f["sigValid"]


def build(rng, sk, kind=22242, age=0, relay="ws://localhost:6969", challenge="chal-A", extra=None, order="rc", sign=True):
    from aionostr.event import Event

    tags = []
    parts = {"r": (["relay", relay] if relay is not None else None), "c": (["challenge", challenge] if challenge is not None else None)}
    for ch in order:
        if parts[ch] is not None:
            tags.append(parts[ch])
    if extra:
        tags += extra
    ev = Event(pubkey=sk.public_key.hex(), content="", kind=kind, created_at=NOW - age, tags=tags)
    ev.sign(sk.hex())
    d = ev.to_json_object()
    if not sign:
        d["sig"] = "00" * 64
    return d


def model_facts(ev, valid_urls, challenge):
    if not isinstance(ev, dict):
        return {"isDict": False, "verifies": None, "kind": 0, "created_at": 0, "tags": []}
    f = facts_of(ev)
    v = py_verifies(f)
    tags = []
    for t in ev["tags"]:
        if not t:
            tags.append(["short"])
        elif t[0] == "relay":
            tags.append(["short"] if len(t) < 2 else ["relay", t[1] in valid_urls])
        elif t[0] == "challenge":
            tags.append(["short"] if len(t) < 2 else ["challenge", t[1] == challenge])
        else:
            tags.append(["other"])
    return {"isDict": True, "verifies": (None if v == "none" else bool(v)), "kind": ev["kind"], "created_at": ev["created_at"],
            "tags": tags}


def spec_ok(ev, valid_urls, challenge):
    """the property, independently: every condition of C15"""
    if not isinstance(ev, dict):
        return False
    f = facts_of(ev)
    if not (f and f["pubkeyParses"] and f["sigValid"] and f["sigDecodes"]):
        return False
    if ev["kind"] != 22242 or not (abs(NOW - ev["created_at"]) < 600):
        return False
    relays = [t[1] for t in ev["tags"] if t and t[0] == "relay" and len(t) > 1]
    chals = [t[1] for t in ev["tags"] if t and t[0] == "challenge" and len(t) > 1]
    return bool(relays) and all(r in valid_urls for r in relays) and bool(chals) and all(c == challenge for c in chals)


def cases(rng, keys):
    sk = rng.choice(keys)
    out = [("valid", build(rng, sk))]
    for age in (-601, -600, -599, -1, 1, 599, 600, 601, 100000):
        out.append(("age%d" % age, build(rng, sk, age=age)))
    # timestamps that are not integers: JSON numbers with a fraction, beyond every integer width, and the non-numbers rapidjson reads
    # (NaN, Infinity) — "fresh" means within 600 s of now, and NaN is within nothing
    for label, ts in (("ts-nan", float("nan")), ("ts-inf", float("inf")), ("ts-minus-inf", float("-inf")), ("ts-float-in", NOW - 0.5),
                      ("ts-float-edge-old", NOW - 599.5), ("ts-float-out", NOW - 600.5), ("ts-huge", 10 ** 30), ("ts-bool", True)):
        from aionostr.event import Event as _E
        ev_ = _E(pubkey=sk.public_key.hex(), content="", kind=22242, created_at=ts, tags=[["relay", "ws://localhost:6969"], ["challenge", "chal-A"]])
        ev_.sign(sk.hex())
        out.append((label, ev_.to_json_object()))
    for k in (1, 22241, 22243, 0):
        out.append(("kind%d" % k, build(rng, sk, kind=k)))
    for r in ("", "ws", "ws://localhost:696", "ws://localhost:6969/", "wss://relay.example/", "wss://evil", None, "WS://LOCALHOST:6969"):
        out.append(("relay=%r" % r, build(rng, sk, relay=r)))
    for c in ("", "c", "chal-", "chal-A ", "chal-B", "CHAL-A", None, "chal-Achal-A"):
        out.append(("challenge=%r" % c, build(rng, sk, challenge=c)))
    out.append(("order-cr", build(rng, sk, order="cr")))
    out.append(("dup-relay-bad-after", build(rng, sk, extra=[["relay", "wss://evil"]])))
    out.append(("dup-challenge-bad-after", build(rng, sk, extra=[["challenge", "nope"]])))
    out.append(("dup-relay-good-after-bad", build(rng, sk, relay="wss://evil", extra=[["relay", "ws://localhost:6969"]])))
    out.append(("short-relay", build(rng, sk, relay=None, extra=[["relay"]])))
    out.append(("short-challenge", build(rng, sk, challenge=None, extra=[["challenge"]])))
    out.append(("other-tags", build(rng, sk, extra=[["p", "00" * 32], ["x"]])))
    out.append(("bad-sig", build(rng, sk, sign=False)))
    e = build(rng, sk)
    e2 = copy.deepcopy(e)
    e2["pubkey"] = rng.choice(keys).public_key.hex() if len(keys) > 1 else e["pubkey"]
    out.append(("pubkey-swapped", e2))
    e3 = copy.deepcopy(e)
    e3["content"] = "changed"
    out.append(("content-changed", e3))
    # an answer that also carries a NIP-26 delegation tag of somebody else (validly signed for this key; conditions that do
    # not cover kind 22242 / expired long ago; or forged): whoever it names, the identity is the signer's
    import hashlib
    from coincurve import PrivateKey as CPrivateKey

    victim = CPrivateKey(bytes([77]) * 32)
    vpub = victim.public_key_xonly.format().hex()
    for label, cond in (("deleg-valid-kind1-expired", "kind=1&created_at<1600000000"), ("deleg-valid-any", "kind=22242")):
        to_sign = ":".join(["nostr", "delegation", sk.public_key.hex(), cond]).encode("utf8")
        dsig = victim.sign_schnorr(hashlib.sha256(to_sign).digest(), None).hex()
        out.append((label, build(rng, sk, extra=[["delegation", vpub, cond, dsig]])))
    out.append(("deleg-forged", build(rng, sk, extra=[["delegation", vpub, "kind=22242", "00" * 64]])))
    for nd in ([], "x", None, 5, [e]):
        out.append(("nondict", nd))
    e4 = copy.deepcopy(e)
    e4["extra_field"] = 1
    out.append(("extra-field", e4))
    return out


def run_auth_case(report, drv, auth, urls_eff, name, ev, challenge):
    from nostr_relay.errors import AuthenticationError

    loop = asyncio.get_event_loop()
    try:
        token = loop.run_until_complete(auth.authenticate(copy.deepcopy(ev) if isinstance(ev, (dict, list)) else ev, challenge=challenge))
        v = "ok"
    except AuthenticationError:
        token, v = None, "reject"
    except Exception:
        token, v = None, "raises"
    payload = {"case": name, "event": ev, "challenge": challenge, "valid_urls": urls_eff}
    int_ts = not isinstance(ev, dict) or (isinstance(ev.get("created_at"), int) and not isinstance(ev.get("created_at"), bool))
    if not int_ts:
        report.count("auth_answers_with_non_integer_timestamp")
    if int_ts and (isinstance(ev, dict) and "extra_field" not in ev or not isinstance(ev, dict)):
        mf = model_facts(ev, urls_eff, challenge)
        mv = drv.call({"op": "adm.auth", "now": NOW, "facts": mf})
        if mv != v:
            report.correspondence_break("auth.Authenticator.authenticate", payload, v, mv)
    if v == "ok":
        if not spec_ok(ev, urls_eff, challenge):
            report.property_failure("an AUTH answer that does not satisfy NIP-42 obtained a token (%s)" % name, payload, None)
        elif token.get("pubkey") != ev["pubkey"]:
            report.property_failure("the token names %r, not the signer" % token.get("pubkey"), payload, None)
    report.case((name, json.dumps(ev, sort_keys=True, default=str)[:300], challenge, str(urls_eff)), nontrivial=(name != "valid"),
                sample={"case": name, "verdict": v})
    report.count("verdict_" + v)


def identity_through_start_client(report, rng, keys):
    """AUTH ok, then a failing AUTH: the identity (observed through a writer-only EVENT) must stay"""
    from lib.proto import Conn, make_sql_relay

    relay = make_sql_relay(authentication={"enabled": True, "relay_urls": URLS, "actions": {"save": "w", "query": "a"}})
    try:
        sk = keys[0]
        relay.set_roles(sk.public_key.hex(), "w")
        c = Conn(relay)
        chal = c.challenge()
        other = Conn(relay)
        chal2 = other.challenge()
        if chal == chal2 or len(chal) != 32:
            report.property_failure("challenges are not distinct 128-bit values: %r %r" % (chal, chal2), {"case": "challenge"}, None)
        good = build(rng, sk, challenge=chal)
        c.send(["AUTH", good])
        # the same answer on the other connection must not authenticate it
        other.send(["AUTH", good])
        ev = relay.signed_event(sk, kind=1, content="by writer")
        ok_self = c.send_event(ev)
        ev2 = relay.signed_event(sk, kind=1, content="from the other connection")
        ok_other = other.send_event(ev2)
        if not ok_self:
            report.property_failure("a valid AUTH did not give the connection its identity", {"case": "identity"}, None)
        if ok_other:
            report.property_failure("an answer captured on one connection authenticated another connection", {"case": "replay"}, None)
        # failing AUTH afterwards leaves the identity
        bad = build(rng, sk, challenge="wrong")
        c.send(["AUTH", bad])
        ev3 = relay.signed_event(sk, kind=1, content="after failed auth")
        if not c.send_event(ev3):
            report.property_failure("a failed AUTH changed the connection's identity", {"case": "identity-kept"}, None)
        c.close()
        other.close()
        report.case(("identity", chal), nontrivial=True)
    finally:
        relay.close()


def handshake_headers_case(report, rng, keys):
    """the real websocket endpoint (NostrAPI.on_websocket behind falcon's ASGI conductor): whatever the client writes into the
    headers of its own handshake (Host, X-Forwarded-Host / -Proto, Forwarded, Origin), an AUTH answer made out to a relay URL
    the relay is not configured to answer to leaves the connection anonymous — a man in the middle shows the victim this
    connection's challenge, the victim answers *his* relay, he forwards the answer"""
    import falcon.testing
    from lib.proto import make_sql_relay
    from nostr_relay import web, auth

    auth.time = lambda: NOW
    relay = make_sql_relay(authentication={"enabled": True, "relay_urls": URLS, "actions": {"save": "w", "query": "a"}})
    try:
        sk = keys[0]
        relay.set_roles(sk.public_key.hex(), "w")
        app = web.create_app(storage=relay.storage)
        foreign = rng.choice(["relay.evil.example", "evil.example:7777", "localhost.evil.example"])

        async def attempt(relay_tag, ws_kwargs):
            """True = the connection obtained the identity (its writer-only EVENT was accepted)"""
            note = relay.signed_event(sk, kind=1, content="note %s %r" % (relay_tag, sorted(ws_kwargs)))
            conductor = falcon.testing.ASGIConductor(app)
            async with conductor.simulate_ws("/", **ws_kwargs) as ws:
                hello = await ws.receive_json()
                answer = build(rng, sk, relay=relay_tag, challenge=hello[1])
                await ws.send_json(["AUTH", answer])
                await ws.send_json(["EVENT", note])
                for _ in range(6):
                    reply = await ws.receive_json()
                    if reply[0] == "OK":
                        return bool(reply[2])
            return None

        variants = [
            ("proper answer, plain handshake", URLS[0], {"host": "localhost"}, True),
            ("foreign answer, plain handshake", "ws://" + foreign, {"host": "localhost"}, False),
            ("foreign answer, Host header names the foreign relay", "ws://" + foreign, {"host": foreign}, False),
            ("foreign answer, X-Forwarded-Host / -Proto name the foreign relay", "wss://" + foreign,
             {"host": "localhost", "headers": {"X-Forwarded-Host": foreign, "X-Forwarded-Proto": "https"}}, False),
            ("foreign answer, Forwarded header names the foreign relay", "wss://" + foreign,
             {"host": "localhost", "headers": {"Forwarded": "for=1.2.3.4;host=%s;proto=https" % foreign}}, False),
            ("foreign answer, Origin names the foreign relay", "wss://" + foreign,
             {"host": "localhost", "headers": {"Origin": "https://" + foreign}}, False),
        ]
        for label, tag, kw, want in variants:
            try:
                got = relay.run(asyncio.wait_for(attempt(tag, kw), 20))
            except Exception as ex:
                raise common.MachineryBroken("websocket handshake harness failed (%s): %r" % (label, ex))
            payload = {"case": "handshake", "variant": label, "relay_tag": tag, "handshake": kw}
            if want and got is not True:
                report.property_failure("a correct NIP-42 answer over the real websocket endpoint did not authenticate", payload, None)
            if not want and got:
                report.property_failure("an AUTH answer made out to %s obtained the identity (%s)" % (tag, label), payload, None)
            report.case(("handshake", label), nontrivial=not want, sample={"variant": label, "authenticated": got})
            report.count("handshake_variants")
    finally:
        relay.close()


def challenge_source(report):
    """a challenge must not be a function of any state an outsider can reconstruct: re-seeding the process-wide
    pseudo-random generators (random, numpy-style seeding is not available here) must not reproduce challenges, and two
    authenticators must not produce the same sequence"""
    import random as _random

    a = make_auth(URLS)
    seqs = []
    for _ in range(2):
        _random.seed(20260929)
        seqs.append([a.get_challenge("1.2.3.4") for _ in range(8)])
    if seqs[0] == seqs[1]:
        report.property_failure("challenges repeat after random.seed(): they are drawn from the process-wide Mersenne Twister, "
                                "so an observer of earlier challenges can compute the next ones", {"case": "challenge-source"}, None)
    flat = seqs[0] + seqs[1]
    if len(set(flat)) != len(flat):
        report.property_failure("a challenge was issued twice", {"case": "challenge-source"}, None)
    if any(len(c) != 32 or any(ch not in "0123456789abcdef" for ch in c) for c in flat):
        report.property_failure("a challenge is not 128 bits of lower-case hex: %r" % flat[:2], {"case": "challenge-source"}, None)
    # the state of the Mersenne Twister must not move when a challenge is drawn
    _random.seed(7)
    st = _random.getstate()
    a.get_challenge("1.2.3.4")
    if _random.getstate() != st:
        report.property_failure("drawing a challenge advances the process-wide Mersenne Twister", {"case": "challenge-source"}, None)
    report.case(("challenge-source",), nontrivial=True, sample={"case": "challenge-source", "distinct": len(set(flat))})


def run(report, tier, seed):
    rng = random.Random(seed)
    drv = common.Driver()
    loop = asyncio.new_event_loop()
    asyncio.set_event_loop(loop)
    from aionostr.key import PrivateKey

    keys = [PrivateKey(bytes([i + 1]) * 32) for i in range(3)]
    report.coverage["rule"] = (
        "the neighbourhood of a valid NIP-42 answer under an injected clock: ages ±599/±600/±601 s, kinds 22241/22242/"
        "22243, relay urls exact/prefix/suffix/empty/case-changed/missing, challenges exact/prefix/empty/other/doubled/"
        "missing, duplicated relay/challenge tags in both orders, value-less tags, bad signature, swapped pubkey, changed "
        "content, answers that also carry a NIP-26 delegation tag naming another key (valid for other kinds / expired / forged), "
        "non-dict payloads, unknown fields; relay_urls unset (default), one string, a list; plus identity "
        "through web.start_client (replay on another connection, failed AUTH after a good one)")
    report.assumptions += ["unpredictability of the OS entropy source behind secrets.token_hex(16) is trusted; observed: distinctness, length, and that challenges neither depend on nor advance the process-wide Mersenne Twister",
                           "clock: auth.time replaced by a constant integer"]
    try:
        for urls, eff in ((None, ["ws://localhost:6969"]), ("ws://localhost:6969", ["ws://localhost:6969"]), (URLS, URLS)):
            auth = make_auth(urls)
            for rep in range(1 if tier == "quick" else 20):
                for name, ev in cases(rng, keys):
                    run_auth_case(report, drv, auth, eff, name, ev, "chal-A")
        challenge_source(report)
        try:
            identity_through_start_client(report, rng, keys)
            handshake_headers_case(report, rng, keys)
        except ImportError:
            report.count("identity_check_skipped")
    finally:
        drv.close()


def replay(report, path):
    data = json.load(open(path))
    drv = common.Driver()
    loop = asyncio.new_event_loop()
    asyncio.set_event_loop(loop)
    try:
        for it in (data.get("violations") or []) + (data.get("correspondence_breaks") or []):
            r = it.get("replay") or it.get("input")
            if "event" in r:
                auth = make_auth(r.get("valid_urls"))
                run_auth_case(report, drv, auth, r.get("valid_urls"), r.get("case", "replay"), r["event"], r.get("challenge", "chal-A"))
    finally:
        drv.close()
