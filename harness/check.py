#!/venv/bin/python
"""
check.py <ID> [--tier quick|thorough] [--replay file]

Verdict logic (DESIGN.md §4): proof obligations (lake build, axiom audit, forbidden-construct grep)
-> correspondence model/implementation -> failing-input search on the implementation
-> classification against known_findings.json -> evidence/<ID>.json.

exit 0: property held on everything explored (KNOWN-FINDING lines may be printed)
exit 1: VIOLATION line printed
exit 2: the machinery itself is broken / timed out (never a verdict)
"""
import sys
import os
import argparse
import importlib
import traceback

sys.path.insert(0, os.path.dirname(os.path.abspath(__file__)))
from lib import common  # noqa


_KEYS = ["tie_primaryKey", "tie_tagKey", "tie_fullKey", "tie_convKeys", "tie_primary_first"]
_SCAN = ["tie_scanIndex", "tie_scanMatches", "tie_badKey", "tie_walk_id", "tie_scanRange"]
# which tie theorems a property's theorems rest on
TRANSLATED = {
    "C01": _KEYS + _SCAN, "C02": _KEYS + _SCAN, "C11": _KEYS + _SCAN, "C12": _KEYS + _SCAN,
    "C10": _KEYS + ["tie_maxKey"], "C08": _KEYS + _SCAN, "C09": _KEYS + _SCAN, "C17": _KEYS,
    "C06": _KEYS + ["tie_maxKey", "tie_encodeRow"], "C07": _KEYS, "C04": ["tie_encodeRow"],
}


def main():
    ap = argparse.ArgumentParser()
    ap.add_argument("prop")
    ap.add_argument("--tier", default=os.environ.get("VERIF_TIER", "quick"), choices=["quick", "thorough"])
    ap.add_argument("--replay", default=None)
    args = ap.parse_args()
    prop = args.prop.upper()
    seed = common.seed_from_env()
    common.setup_paths()
    from lib import cover
    cover.start(common.REPO)
    try:
        proof_cov = common.proof_obligations(prop, args.tier)
        mod = importlib.import_module("props.%s" % prop.lower())
        report = common.Report(prop, args.tier, seed)
        if prop in TRANSLATED:
            # the second tie: kv.py's key / record layout is translated from the current source and Lean checks that the
            # model is exactly that (DESIGN.md §3.5); a failure is a proof obligation broken by the code
            from lib import translate
            tr = translate.run(common.REPO, common.LEAN)
            report.coverage["translation_tie"] = {
                "source": "nostr_relay/storage/kv.py", "status": tr["status"], "theorems": tr["theorems"],
                "failed": tr["failed"], "unavailable": tr["unavailable"], "definitions": tr["definitions"]}
            mine = [n for n in tr["failed_names"] if n in TRANSLATED[prop] or not n.startswith("tie_")]
            if mine:
                report.correspondence_break(
                    "translator: the layout definitions regenerated from kv.py no longer equal the model's (tie theorem(s) %s fail)"
                    % ", ".join(mine), {"kind": "translation", "failed": tr["failed"]},
                    {k: v for k, v in tr["definitions"].items()}, "NostrRelay/Model/KV.lean, Model/MsgPack.lean")
        if prop == "C16":
            # the validators' decision logic, translated from the current source and proved equal to the model's (DESIGN.md §3.5)
            from lib import translate_validators
            tv = translate_validators.run(common.REPO, common.LEAN)
            report.coverage["translation_tie"] = {
                "source": "nostr_relay/validators.py", "status": tv["status"], "theorems": tv["theorems"], "failed": tv["failed"],
                "unavailable": tv["unavailable"], "definitions": tv["definitions"]}
            if tv["failed_names"]:
                report.correspondence_break(
                    "translator: the validators regenerated from validators.py no longer decide as the model does (tie theorem(s) %s fail)"
                    % ", ".join(tv["failed_names"]), {"kind": "translation", "failed": tv["failed"]}, tv["definitions"],
                    "NostrRelay/Model/Admission.lean")
        if prop == "C05":
            from lib import translate_validators
            tl = translate_validators.run_live(common.REPO, common.LEAN)
            report.coverage["translation_tie"] = {
                "source": "nostr_relay/storage/base.py BaseSubscription.check_event", "status": tl["status"], "theorems": tl["theorems"],
                "failed": tl["failed"], "unavailable": tl["unavailable"], "definitions": tl["definitions"]}
            if tl["failed_names"]:
                report.correspondence_break(
                    "translator: check_event regenerated from storage/base.py no longer matches as the model's liveMatch (%s fail)"
                    % ", ".join(tl["failed_names"]), {"kind": "translation", "failed": tl["failed"]}, tl["definitions"],
                    "NostrRelay/Model/Live.lean liveMatch")
        if prop == "C14":
            from lib import translate_validators
            tc = translate_validators.run_can_do(common.REPO, common.LEAN)
            report.coverage["translation_tie"] = {
                "source": "nostr_relay/auth.py Authenticator.can_do", "status": tc["status"], "theorems": tc["theorems"],
                "failed": tc["failed"], "unavailable": tc["unavailable"], "definitions": tc["definitions"]}
            if tc["failed_names"]:
                report.correspondence_break("translator: can_do regenerated from auth.py no longer decides as the model's canDo",
                                            {"kind": "translation", "failed": tc["failed"]}, tc["definitions"],
                                            "NostrRelay/Model/Admission.lean canDo")
        if prop == "C15":
            from lib import translate_validators
            ta = translate_validators.run_auth(common.REPO, common.LEAN)
            report.coverage["translation_tie"] = {
                "source": "nostr_relay/auth.py Authenticator.check_auth_event", "status": ta["status"], "theorems": ta["theorems"],
                "failed": ta["failed"], "unavailable": ta["unavailable"], "definitions": ta["definitions"]}
            if ta["failed_names"]:
                report.correspondence_break(
                    "translator: check_auth_event regenerated from auth.py no longer decides as the model's authenticate (%s fail)"
                    % ", ".join(ta["failed_names"]), {"kind": "translation", "failed": ta["failed"]}, ta["definitions"],
                    "NostrRelay/Model/Admission.lean authenticate / scanAuthTags")
        if prop == "C18":
            from lib import translate_validators
            ti = translate_validators.run_intervals(common.REPO, common.LEAN)
            report.coverage["translation_tie"] = {
                "source": "nostr_relay/rate_limiter.py parse_option (table of interval names)", "status": ti["status"],
                "theorems": ti["theorems"], "failed": ti["failed"], "unavailable": ti["unavailable"]}
            if ti["failed_names"]:
                report.correspondence_break("translator: the table of interval names of parse_option no longer equals the model's parseInterval",
                                            {"kind": "translation", "failed": ti["failed"]}, ti["definitions"],
                                            "NostrRelay/Model/RateLimiter.lean parseInterval")
        if args.replay:
            mod.replay(report, args.replay)
        else:
            mod.run(report, args.tier, seed)
        code = report.finish(proof_cov, getattr(mod, "THEOREMS_TIED", None))
    except common.MachineryBroken as e:
        print("BROKEN %s: %s" % (prop, e))
        sys.exit(2)
    except Exception:
        traceback.print_exc()
        print("BROKEN %s: harness exception" % prop)
        sys.exit(2)
    sys.stdout.flush()
    os._exit(code)


if __name__ == "__main__":
    main()
