#!/venv/bin/python
"""
check.py <ID> [--tier quick|thorough] [--replay file]

Verdict logic (DESIGN.md §4): proof obligations (lake build, axiom audit, forbidden-construct grep)
-> correspondence model/implementation -> failing-input search on the implementation
-> classification against known_findings.json -> evidence/<ID>.json.

exit 0: property held on everything explored (KNOWN-FINDING lines may be printed)
exit 1: VIOLATION line printed
exit 2: the machinery itself is broken / timed out (never a verdict)
"""
import sys
import os
import argparse
import importlib
import traceback

sys.path.insert(0, os.path.dirname(os.path.abspath(__file__)))
from lib import common  # noqa


def main():
    ap = argparse.ArgumentParser()
    ap.add_argument("prop")
    ap.add_argument("--tier", default=os.environ.get("VERIF_TIER", "quick"), choices=["quick", "thorough"])
    ap.add_argument("--replay", default=None)
    args = ap.parse_args()
    prop = args.prop.upper()
    seed = common.seed_from_env()
    common.setup_paths()
    from lib import cover
    cover.start(common.REPO)
    try:
        proof_cov = common.proof_obligations(prop, args.tier)
        mod = importlib.import_module("props.%s" % prop.lower())
        report = common.Report(prop, args.tier, seed)
        if args.replay:
            mod.replay(report, args.replay)
        else:
            mod.run(report, args.tier, seed)
        code = report.finish(proof_cov, getattr(mod, "THEOREMS_TIED", None))
    except common.MachineryBroken as e:
        print("BROKEN %s: %s" % (prop, e))
        sys.exit(2)
    except Exception:
        traceback.print_exc()
        print("BROKEN %s: harness exception" % prop)
        sys.exit(2)
    sys.stdout.flush()
    os._exit(code)


if __name__ == "__main__":
    main()
