"""
Trace recorder for the protocol machine (C05 / C13): a real, *unsettled* run of web.start_client on several
connections is linearised into the labels of the Lean transition system (Model/Proto.lean) by wrappers applied from
outside — around storage.subscribe / unsubscribe / notify_all_connected, Subscription.notify / run_query, the
connection's subscription queue and the fake websocket.  Everything runs on one event-loop thread, so the order in
which the wrappers fire is a linearisation of what happened.  `proto.trace` then checks that the label list is a run
of the machine (every label enabled) and returns the machine's transcripts, which must equal the real ones.

Nothing here reads the outcome off the implementation to *decide* it: a label only says what was observed (which
Subscription object put which item, which connection's handler called what); the machine decides whether that is a
possible behaviour.
"""
import asyncio
import contextvars
import json

from lib import proto

_current_inst = contextvars.ContextVar("verif_current_inst", default=None)      # (inst_no, "query"|"notify", state dict)
_in_subscribe = contextvars.ContextVar("verif_in_subscribe", default=None)


class Tracer:
    def __init__(self, relay, names, evn):
        self.relay = relay
        self.names = names          # psess.Names for subscription ids
        self.evn = evn              # psess.Names for event ids
        self.labels = []
        self.inst_of = {}           # id(Subscription object) -> inst number
        self.filters_of_inst = {}   # inst number -> the raw filters of its REQ
        self.req_label_of = {}      # inst number -> the req label (its "answer" is filled in as the query task puts)
        self.next_inst = 0
        self.keep = []              # keep Subscription objects alive so that id() stays unique
        self._installed = False

    # -- which harness connection does this object belong to? ---------------------------------------------------
    def conn_of_queue(self, q):
        for i, c in enumerate(self.relay.conns):
            if c._queue is q:
                return c.no
        return None

    def install(self):
        st = self.relay.storage
        tr = self
        self._orig = {"subscribe": st.subscribe, "unsubscribe": st.unsubscribe, "notify_all": st.notify_all_connected,
                      "cls": st.subscription_class, "notify": st.subscription_class.notify,
                      "run_query": st.subscription_class.run_query, "put": proto._RecQueue.put}
        cls = st.subscription_class

        async def subscribe(client_id, sub_id, filters, queue, **kw):
            c = tr.conn_of_queue(queue)
            lab = {"t": "req", "c": c, "sub": tr.names(sub_id), "usable": True, "allowed": True, "answer": []}
            before = dict(st.clients.get(client_id, {}))
            tok = _in_subscribe.set(lab)
            try:
                try:
                    r = await tr._orig["subscribe"](client_id, sub_id, filters, queue, **kw)
                except BaseException:
                    lab["allowed"] = False                       # refused: NOTICE (limit, not a query, restricted)
                    tr.labels.append(lab)
                    raise
                sub = st.clients.get(client_id, {}).get(sub_id)
                if sub is not None and before.get(sub_id) is not sub:
                    tr.inst_of[id(sub)] = tr.next_inst
                    tr.filters_of_inst[tr.next_inst] = list(filters)
                    tr.keep.append(sub)
                    tr.req_label_of[tr.next_inst] = lab
                    tr.next_inst += 1
                else:
                    lab["usable"] = False                        # sentinel put inside subscribe, nothing registered
                    tr.next_inst += 1                            # the machine gives the sentinel a ghost instance
                tr.labels.append(lab)
                return r
            finally:
                _in_subscribe.reset(tok)

        async def unsubscribe(client_id, sub_id=None):
            c = None
            for conn in tr.relay.conns:
                if getattr(conn, "client_id", None) is client_id:
                    c = conn.no
            if c is None:
                cur = proto._current_conn.get()
                c = cur.no if cur is not None else None
            if _in_subscribe.get() is not None:
                pass                                               # the replacement step inside subscribe: part of the req label
            elif sub_id:
                tr.labels.append({"t": "close", "c": c, "sub": tr.names(sub_id)})
            else:
                tr.labels.append({"t": "disconnect", "c": c})
            return await tr._orig["unsubscribe"](client_id, sub_id)

        async def notify_all(event):
            cur = proto._current_conn.get()
            # the original first awaits the previous round, then creates one task per registered subscription:
            # the label belongs *after* that wait, i.e. when the task-creation loop runs; it has no suspension point,
            # so emitting the label when the original returns is the same instant for every other task
            r = await tr._orig["notify_all"](event)
            tr.labels.append({"t": "event", "c": cur.no if cur else None, "ev": tr.evn(event.id), "accepted": True})
            return r

        async def notify(sub, event):
            inst = tr.inst_of.get(id(sub))
            state = {"put": False}
            tok = _current_inst.set((inst, "notify", state))
            try:
                return await tr._orig["notify"](sub, event)
            finally:
                _current_inst.reset(tok)
                tr.labels.append({"t": "notify", "ev": tr.evn(event.id), "inst": inst, "match": state["put"]})

        async def run_query(sub):
            inst = tr.inst_of.get(id(sub))
            _in_subscribe.set(None)          # the task was created inside subscribe() and inherited its context
            tok = _current_inst.set((inst, "query", {}))
            try:
                return await tr._orig["run_query"](sub)
            finally:
                _current_inst.reset(tok)

        async def put(q, item):
            cur = _current_inst.get()
            if _in_subscribe.get() is None and cur is not None and isinstance(item, tuple) and len(item) == 2:
                inst, mode, state = cur
                if mode == "notify":
                    state["put"] = True
                elif inst is not None:
                    if item[1] is not None:
                        tr.req_label_of[inst]["answer"].append(tr.evn(item[1].id))
                    tr.labels.append({"t": "query", "inst": inst})
            return await tr._orig["put"](q, item)

        st.subscribe = subscribe
        st.unsubscribe = unsubscribe
        st.notify_all_connected = notify_all
        cls.notify = notify
        # lib.psess may already have wrapped run_query to hold query tasks: wrap whatever is there now
        self._orig["run_query"] = cls.run_query
        cls.run_query = run_query
        proto._RecQueue.put = put
        self._installed = True

    def uninstall(self):
        if not self._installed:
            return
        st = self.relay.storage
        cls = st.subscription_class
        cls.notify = self._orig["notify"]
        cls.run_query = self._orig["run_query"]
        proto._RecQueue.put = self._orig["put"]
        self._installed = False

    # -- frames --------------------------------------------------------------------------------------------------
    def on_send(self, conn, text):
        """called by the connection for every frame it sends"""
        try:
            f = json.loads(text)
        except Exception:
            return
        if not isinstance(f, list) or not f:
            return
        if f[0] in ("EVENT", "EOSE"):
            self.labels.append({"t": "send", "c": conn.no})
        elif f[0] == "OK" and not f[2]:
            ev = conn.pending_event_ids.pop(0) if conn.pending_event_ids else None
            self.labels.append({"t": "event", "c": conn.no, "ev": self.evn(ev if ev else "?%d" % len(self.labels)), "accepted": False})
        elif f[0] == "OK" and conn.pending_event_ids:
            conn.pending_event_ids.pop(0)


# ----------------------------------------------------------------------------------------------------------------
def run_trace_session(report, drv, backend, rng, keys, tag, limit=4, n_bursts=None):
    """an unsettled multi-connection run: bursts of messages are put into the connections' inboxes and only then is the
    loop allowed to run, so handlers, query tasks, notify tasks and senders interleave as the event loop schedules
    them; the recorded label list must be a run of the machine and reproduce the transcripts"""
    from lib import psess, spec
    from lib.proto import Relay, Conn
    from nostr_relay.storage.base import NostrQuery
    import copy

    relay = Relay(backend, subscription_limit=limit)
    names, evn = psess.Names(), psess.Names()
    tr = Tracer(relay, names, evn)
    relay.tracer = tr
    tr.install()
    sent = []
    try:
        conns = [Conn(relay, remote_addr="10.1.0.%d" % (i % 2)) for i in range(rng.randint(2, 4))]
        all_events, clock = [], [0]
        filters_of = {}            # label index of a req -> validated filters

        def new_event():
            clock[0] += 1
            sk = rng.choice(keys)
            kind = rng.choice([1, 1, 7, 30000])
            tags = [["t", rng.choice(["x", "y", "w"])]] if rng.random() < 0.5 else []
            if kind == 30000:
                tags.append(["d", "k%d" % clock[0]])
            return relay.signed_event(sk, kind=kind, content="t%d" % clock[0], tags=tags, created_at=psess.T0 + clock[0] * 10)

        for b in range(n_bursts or rng.randint(4, 9)):
            live = [c for c in conns if not c.done and c.inbox.qsize() < 50]
            if not live:
                break
            for _ in range(rng.choice([1, 2, 2, 3, 4, 6])):
                c = rng.choice(live)
                if c.closing:
                    continue
                r = rng.random()
                if r < 0.40:
                    nf = rng.choice([0, 1, 1, 2])
                    fl = [psess.gen_filter(rng, keys, [e["id"] for e in all_events])[0] for _ in range(nf)]
                    msg = ["REQ", rng.choice(psess.SUB_NAMES[:4])] + fl
                elif r < 0.52:
                    msg = ["CLOSE", rng.choice(psess.SUB_NAMES[:4])]
                elif r < 0.92:
                    k = rng.random()
                    if k < 0.15 and all_events:
                        ev = copy.deepcopy(rng.choice(all_events))
                    else:
                        ev = new_event()
                        if k > 0.9:
                            ev["sig"] = "00" * 64
                    all_events.append(ev)
                    msg = ["EVENT", ev]
                else:
                    c.closing = True
                    c.inbox.put_nowait(proto.DISCONNECT)
                    sent.append({"c": c.no, "msg": "DISCONNECT"})
                    continue
                sent.append({"c": c.no, "msg": msg})
                c.send(msg, settle=False)
            relay.settle()
        for c in conns:
            if not c.done:
                c.close()
        relay.settle()
        # ---- the recorded run against the machine ------------------------------------------------------------
        payload = {"backend": backend, "limit": limit, "sent": sent, "labels": tr.labels}
        res = drv.call({"op": "proto.trace", "limit": limit, "eoc": backend == "kv", "labels": tr.labels})
        inv_n = {v: k for k, v in names.ids.items()}
        inv_e = {v: k for k, v in evn.ids.items()}
        if res["disabled_at"] is not None:
            i = res["disabled_at"]
            report.correspondence_break("%s: the recorded run is not a run of the protocol machine (label %d: %r not enabled)"
                                        % (backend, i, tr.labels[i]), dict(payload, at=i), tr.labels[max(0, i - 6):i + 1], "not enabled")
        else:
            model = {c: fr for c, fr in res["transcripts"]}
            for c in conns:
                real = psess.canon_frames(c.frames())
                want = []
                for f in model.get(c.no, []):
                    if f[0] == "EVENT":
                        want.append(("EVENT", inv_n[f[1]], inv_e[f[2]]))
                    elif f[0] == "EOSE":
                        want.append(("EOSE", inv_n[f[1]]))
                    elif f[0] == "OK":
                        want.append(("OK", inv_e[f[1]] if f[2] else None, f[2]))
                    else:
                        want.append(("NOTICE",))
                sub_real = [x for x in real if x[0] in ("EVENT", "EOSE")]
                sub_want = [x for x in want if x[0] in ("EVENT", "EOSE")]
                from collections import Counter
                if sub_real != sub_want or Counter(x for x in real if x[0] in ("OK", "NOTICE")) != Counter(x for x in want if x[0] in ("OK", "NOTICE")):
                    report.correspondence_break("%s: transcript of connection %d differs from the machine's for the recorded schedule"
                                                % (backend, c.no), payload, [list(x) for x in real][:40], [list(x) for x in want][:40])
                    break
        # ---- what the machine takes as input is checked against the reference: live matching --------------------
        by_id = {e["id"]: e for e in all_events}
        for lab in tr.labels:
            if lab["t"] != "notify" or lab["inst"] is None:
                continue
            ev = by_id.get(inv_e.get(lab["ev"]))
            if ev is None:
                continue
            qs = []
            for f in tr.filters_of_inst.get(lab["inst"], []):
                try:
                    qs.append(NostrQuery.model_validate(copy.deepcopy(f)))
                except Exception:
                    pass
            want = any(spec.matches(q, ev, False) for q in qs)
            if want != lab["match"]:
                report.property_failure("%s: live matching: event %s.. was %s to a subscription with filters %s"
                                        % (backend, ev["id"][:8], "pushed" if lab["match"] else "not pushed",
                                           json.dumps(tr.filters_of_inst.get(lab["inst"]))[:200]), payload, None)
        report.count("trace_labels", len(tr.labels))
        for t in ("req", "event", "notify", "query", "send", "close", "disconnect"):
            report.count("trace_" + t, sum(1 for l in tr.labels if l["t"] == t))
        report.case((backend, "trace", tag, json.dumps(tr.labels, sort_keys=True)[:4000]), nontrivial=any(l["t"] == "notify" and l["match"] for l in tr.labels),
                    sample={"backend": backend, "trace_labels": len(tr.labels), "connections": len(conns)})
    finally:
        tr.uninstall()
        relay.tracer = None
        relay.close()
