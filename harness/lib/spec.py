"""
NIP-01 filter matching in Python — an independent reference used (a) for inputs outside the Lean model's
fragment (non-string tag items, odd ids) and (b) cross-checked against the Lean `matchesSpec` on every
in-model case, so that there is effectively one specification.
"""


def _tags(ev):
    return ev["tags"] if isinstance(ev, dict) else ev.tags


def _get(ev, k):
    return ev[k] if isinstance(ev, dict) else getattr(ev, k)


def matches(q, ev, strict):
    """q: validated NostrQuery; ev: event dict/object"""
    if q.ids is not None and _get(ev, "id") not in q.ids:
        return False
    if q.authors is not None:
        ok = _get(ev, "pubkey") in q.authors
        if not ok and not strict:
            for t in _tags(ev):
                if len(t) > 1 and t[0] == "delegation" and t[1] in q.authors:
                    ok = True
        if not ok:
            return False
    if q.kinds is not None and _get(ev, "kind") not in q.kinds:
        return False
    ts = _get(ev, "created_at")
    if q.since is not None and not (ts > q.since if strict else ts >= q.since):
        return False
    if q.until is not None and not (ts < q.until if strict else ts <= q.until):
        return False
    for name, vals in (q.tags or []):
        if not any(len(t) > 1 and t[0] == name and isinstance(t[1], str) and t[1] in vals for t in _tags(ev)):
            return False
    return True


def is_wellformed_conjunction(q):
    """the domain of C02: at least one condition (the relay refuses pure range scans / empty filters by
    policy — DESIGN.md §8 #23), ids/authors of exactly 64 hex digits"""
    if q.ids is None and q.authors is None and q.kinds is None and not q.tags and not q.since and not q.until:
        # {} / {"limit": n} / {"since": 0}: an unbounded range scan, refused by policy
        return False
    for l in (q.ids, q.authors):
        if l is not None and any(len(x) != 64 for x in l):
            return False
    return True
