"""
Driving the real web.start_client over in-memory websockets: a `Relay` (real storage object of either
backend, real authenticator / validators / rate limiter) and `Conn`s whose ws_recv / ws_send / ws_close are
harness callables.  Everything runs on one asyncio loop; after each injected message the harness lets the
loop settle (until no connection produced output for a few rounds), then drains the LMDB writer.
Throttle sleeps of the handler are shortened (asyncio.sleep is wrapped), the message timeout is large.
"""
import asyncio
import json
import logging

from lib import common
from lib.hist import KVStore, SQLStore

import contextvars

_real_sleep = asyncio.sleep
_real_queue = asyncio.Queue
DISCONNECT = object()
HELD = {"n": 0}      # query tasks currently kept waiting at a gate by lib.psess
_current_conn = contextvars.ContextVar("verif_current_conn", default=None)


class _RecQueue(_real_queue):
    """asyncio.Queue that tells the harness connection in whose handler task it was created about itself
    (start_client creates its subscription queue in its first synchronous step)"""

    def __init__(self, *a, **k):
        super().__init__(*a, **k)
        c = _current_conn.get()
        if c is not None and getattr(c, "_queue", None) is None:
            c._queue = self


async def _fast_sleep(delay, result=None):
    return await _real_sleep(0 if delay <= 0 else min(delay, 0.002), result)


class Relay:
    def __init__(self, backend="sql", authentication=None, validators=("nostr_relay.validators.is_signed",),
                 rate_limits=None, output_validator=None, subscription_limit=None):
        common.setup_paths()
        from nostr_relay.config import Config
        from nostr_relay import rate_limiter

        if subscription_limit is not None:
            Config.subscription_limit = subscription_limit
        else:
            Config.subscription_limit = 32
        Config.service_privatekey = "07" * 32      # LMDB keeps role assignments as signed service events
        self._dir = None
        if backend == "sql":
            # a file-backed database, as the relay is deployed: with sqlite :memory: SQLAlchemy hands every task the *same*
            # DBAPI connection (StaticPool), so that one task's release / rollback hits another task's open transaction
            self._dir = common.scratch_dir("nrsql-")
            self.store = SQLStore(validators=list(validators), authentication=authentication, output_validator=output_validator,
                                  url="sqlite+aiosqlite:///" + self._dir + "/relay.sqlite3", service_key="07" * 32)
        else:
            self.store = KVStore(validators=list(validators), authentication=authentication, output_validator=output_validator,
                                 service_key="07" * 32)
        self.backend = backend
        self.loop = self.store.loop
        self.storage = self.store.storage
        self.limiter = rate_limiter.RateLimiter(rate_limits) if rate_limits else rate_limiter.NullRateLimiter()
        self.conns = []
        self.tracer = None          # lib.ptrace.Tracer, when a run is being recorded
        self.log = logging.getLogger("nostr_relay.verif.web")
        asyncio.sleep = _fast_sleep
        asyncio.Queue = _RecQueue

    # -- helpers ---------------------------------------------------------------------------------
    def run(self, coro):
        return self.loop.run_until_complete(coro)

    def quiescent(self):
        """nothing is in flight: every handler waits for its next message, every sender has drained its queue, no query or
        notify task is pending (query tasks the harness holds at their gate excepted)"""
        for c in self.conns:
            if c.done:
                continue
            if not c.idle or not c.inbox.empty():
                return False
            if not c.stalled and c._queue is not None and not c._queue.empty():
                return False
            if not c.stalled and c.sending:
                return False
        pending_q = 0
        for t in asyncio.all_tasks(self.loop):
            if t.done():
                continue
            name = getattr(t.get_coro(), "__qualname__", "")
            if name.endswith(".notify") or name.endswith("notify_all_connected"):
                return False
            if "run_query" in name:
                pending_q += 1
        return pending_q <= HELD["n"]

    def settle(self, rounds=2, max_s=4.0):
        async def go():
            stable, t0 = 0, self.loop.time()
            while stable < rounds and self.loop.time() - t0 < max_s:
                await _real_sleep(0.002)
                stable = stable + 1 if self.quiescent() else 0
        self.run(go())
        if self.backend == "kv":
            self.store.quiesce()
            self.run(go())

    def set_roles(self, pubkey, roles):
        self.run(self.storage.set_auth_roles(pubkey, roles))
        if self.backend == "kv":
            self.store.quiesce()

    def signed_event(self, sk, kind=1, content="", tags=None, created_at=None):
        from aionostr.event import Event
        import time

        ev = Event(pubkey=sk.public_key.hex(), content=content, kind=kind, tags=tags or [],
                   created_at=created_at or int(time.time()))
        ev.sign(sk.hex())
        return ev.to_json_object()

    def open_subscriptions(self):
        return {str(k): sorted(v.keys()) for k, v in self.storage.clients.items()}

    def close(self):
        for c in list(self.conns):
            if not c.done:
                c.close()
        asyncio.sleep = _real_sleep
        asyncio.Queue = _real_queue
        self.store.close()
        if self._dir:
            import shutil

            shutil.rmtree(self._dir, ignore_errors=True)


class Conn:
    def __init__(self, relay, remote_addr="1.2.3.4", start=True, no=None):
        import falcon

        self.relay = relay
        self.no = len(relay.conns) if no is None else no
        self.pending_event_ids = []      # ids of the EVENT messages sent and not yet answered (FIFO)
        self.closing = False
        self.inbox = _real_queue()
        self.out = []          # raw text frames sent to the client
        self.closed_with = None
        self.done = False
        self.exc = None
        self.remote_addr = remote_addr
        self.stalled = False
        self.idle = False
        self.sending = False
        self._unstall = asyncio.Event()
        self._queue = None
        self._falcon = falcon
        relay.conns.append(self)
        if relay.tracer is not None:
            relay.tracer.labels.append({"t": "connect", "c": self.no})
        if start:
            self.task = relay.loop.create_task(self._main())
            relay.settle()

    async def _main(self):
        from nostr_relay import web

        async def ws_send(text):
            self.sending = True
            try:
                if self.stalled:
                    # a client that has stopped reading its socket: the send does not complete
                    await self._unstall.wait()
                self.out.append(text)
                if self.relay.tracer is not None:
                    self.relay.tracer.on_send(self, text)
            finally:
                self.sending = False

        async def ws_recv():
            self.idle = True
            try:
                item = await self.inbox.get()
            finally:
                self.idle = False
            if item is DISCONNECT:
                raise self._falcon.WebSocketDisconnected()
            if isinstance(item, tuple) and item and item[0] == "RAISE":
                raise item[1]
            return item

        async def ws_close(code=1000):
            self.closed_with = code

        _current_conn.set(self)
        try:
            await web.start_client(self.relay.storage, ws_send, ws_recv, ws_close, self.relay.log,
                                   message_timeout=3600, rate_limiter=self.relay.limiter, remote_addr=self.remote_addr)
        except BaseException as e:  # an exception escaping the handler is a C19 violation
            self.exc = e
        finally:
            self.done = True

    # -- client side -------------------------------------------------------------------------------
    def send(self, msg, settle=True):
        text = msg if isinstance(msg, str) else json.dumps(msg)
        if isinstance(msg, list) and len(msg) > 1 and msg[0] == "EVENT" and isinstance(msg[1], dict):
            self.pending_event_ids.append(msg[1].get("id"))
        self.inbox.put_nowait(text)
        if settle:
            self.relay.settle()

    def queue_is(self, q):
        """is `q` this connection's subscription queue?  (identified through the sender: the queue a Subscription of
        this connection holds is the one whose items end up in self.out)"""
        return getattr(self, "_queue", None) is q

    def frames(self, start=0):
        out = []
        for t in self.out[start:]:
            try:
                out.append(json.loads(t))
            except Exception:
                out.append(("UNPARSABLE", t))
        return out

    def challenge(self):
        for f in self.frames():
            if isinstance(f, list) and f and f[0] == "AUTH":
                return f[1]
        return None

    def send_event(self, ev):
        """returns the boolean of the OK frame for this submission (None if there is none)"""
        n = len(self.out)
        self.send(["EVENT", ev])
        for f in self.frames(n):
            if isinstance(f, list) and f and f[0] == "OK":
                return f[2]
        return None

    def close(self):
        self.inbox.put_nowait(DISCONNECT)
        self.relay.settle()


def make_sql_relay(**kw):
    return Relay("sql", **kw)


def make_kv_relay(**kw):
    return Relay("kv", **kw)
