"""
Driving the real web.start_client over in-memory websockets: a `Relay` (real storage object of either
backend, real authenticator / validators / rate limiter) and `Conn`s whose ws_recv / ws_send / ws_close are
harness callables.  Everything runs on one asyncio loop; after each injected message the harness lets the
loop settle (until no connection produced output for a few rounds), then drains the LMDB writer.
Throttle sleeps of the handler are shortened (asyncio.sleep is wrapped), the message timeout is large.
"""
import asyncio
import json
import logging

from lib import common
from lib.hist import KVStore, SQLStore

_real_sleep = asyncio.sleep
DISCONNECT = object()


async def _fast_sleep(delay, result=None):
    return await _real_sleep(0 if delay <= 0 else min(delay, 0.002), result)


class Relay:
    def __init__(self, backend="sql", authentication=None, validators=("nostr_relay.validators.is_signed",),
                 rate_limits=None, output_validator=None, subscription_limit=None):
        common.setup_paths()
        from nostr_relay.config import Config
        from nostr_relay import rate_limiter

        if subscription_limit is not None:
            Config.subscription_limit = subscription_limit
        else:
            Config.subscription_limit = 32
        Config.service_privatekey = "07" * 32      # LMDB keeps role assignments as signed service events
        cls = SQLStore if backend == "sql" else KVStore
        self.store = cls(validators=list(validators), authentication=authentication, output_validator=output_validator)
        self.backend = backend
        self.loop = self.store.loop
        self.storage = self.store.storage
        self.limiter = rate_limiter.RateLimiter(rate_limits) if rate_limits else rate_limiter.NullRateLimiter()
        self.conns = []
        self.log = logging.getLogger("nostr_relay.verif.web")
        asyncio.sleep = _fast_sleep

    # -- helpers ---------------------------------------------------------------------------------
    def run(self, coro):
        return self.loop.run_until_complete(coro)

    def settle(self, rounds=3):
        async def go():
            last, stable, spins = None, 0, 0
            while stable < rounds and spins < 400:
                await _real_sleep(0.004)
                snap = tuple((len(c.out), c.inbox.qsize(), c.done) for c in self.conns)
                stable = stable + 1 if snap == last else 0
                last = snap
                spins += 1
        self.run(go())
        if self.backend == "kv":
            self.store.quiesce()
            self.run(go())

    def set_roles(self, pubkey, roles):
        self.run(self.storage.set_auth_roles(pubkey, roles))
        if self.backend == "kv":
            self.store.quiesce()

    def signed_event(self, sk, kind=1, content="", tags=None, created_at=None):
        from aionostr.event import Event
        import time

        ev = Event(pubkey=sk.public_key.hex(), content=content, kind=kind, tags=tags or [],
                   created_at=created_at or int(time.time()))
        ev.sign(sk.hex())
        return ev.to_json_object()

    def open_subscriptions(self):
        return {str(k): sorted(v.keys()) for k, v in self.storage.clients.items()}

    def close(self):
        for c in list(self.conns):
            if not c.done:
                c.close()
        asyncio.sleep = _real_sleep
        self.store.close()


class Conn:
    def __init__(self, relay, remote_addr="1.2.3.4", start=True):
        import falcon

        self.relay = relay
        self.inbox = asyncio.Queue()
        self.out = []          # raw text frames sent to the client
        self.closed_with = None
        self.done = False
        self.exc = None
        self.remote_addr = remote_addr
        self._falcon = falcon
        relay.conns.append(self)
        if start:
            self.task = relay.loop.create_task(self._main())
            relay.settle()

    async def _main(self):
        from nostr_relay import web

        async def ws_send(text):
            self.out.append(text)

        async def ws_recv():
            item = await self.inbox.get()
            if item is DISCONNECT:
                raise self._falcon.WebSocketDisconnected()
            if isinstance(item, tuple) and item and item[0] == "RAISE":
                raise item[1]
            return item

        async def ws_close(code=1000):
            self.closed_with = code

        try:
            await web.start_client(self.relay.storage, ws_send, ws_recv, ws_close, self.relay.log,
                                   message_timeout=3600, rate_limiter=self.relay.limiter, remote_addr=self.remote_addr)
        except BaseException as e:  # an exception escaping the handler is a C19 violation
            self.exc = e
        finally:
            self.done = True

    # -- client side -------------------------------------------------------------------------------
    def send(self, msg, settle=True):
        text = msg if isinstance(msg, str) else json.dumps(msg)
        self.inbox.put_nowait(text)
        if settle:
            self.relay.settle()

    def frames(self, start=0):
        out = []
        for t in self.out[start:]:
            try:
                out.append(json.loads(t))
            except Exception:
                out.append(("UNPARSABLE", t))
        return out

    def challenge(self):
        for f in self.frames():
            if isinstance(f, list) and f and f[0] == "AUTH":
                return f[1]
        return None

    def send_event(self, ev):
        """returns the boolean of the OK frame for this submission (None if there is none)"""
        n = len(self.out)
        self.send(["EVENT", ev])
        for f in self.frames(n):
            if isinstance(f, list) and f and f[0] == "OK":
                return f[2]
        return None

    def close(self):
        self.inbox.put_nowait(DISCONNECT)
        self.relay.settle()


def make_sql_relay(**kw):
    return Relay("sql", **kw)


def make_kv_relay(**kw):
    return Relay("kv", **kw)
