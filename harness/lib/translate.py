"""
A small source-to-Lean translator for the *layout* of the LMDB backend — the second way (next to the differential correspondence)
in which the model is tied to /repo's current source.

On every run the byte-string expressions that define the key layout are read out of /repo/nostr_relay/storage/kv.py with `ast`
(never by executing it):

    <Index subclass>.prefix, <Index subclass>.to_key          the six key constructors
    Index.write           to_save = b"%s\\x00%s\\x00%s" % (key, ctime, event_id)
    INDEXES               the order in which the indexes are written
    Index.scanner         add_time, the seek key, both stop keys, both range start keys, the three key slices
    encode_event          the order and msgpack type of the fields of a record
    check_storable        LMDB's key-size bound

and translated, expression by expression, to Lean definitions (namespace `X`).  A generated file states, for each of them, that the
hand-written model *is* that definition (`KV.primaryKey`, `KV.tagKey`, `KV.fullKey`, `KV.convKeys`, `KV.scanIndex`,
`KV.scanMatches`, `KV.badKey`, `KV.walk`'s id slice, `KV.scanRange`, `KV.maxKeySize`, `MP.encodeRow`) and Lean checks the file
against the compiled model.  So a change of a prefix byte, a separator, a slice bound, the field order of the record or the order of
the indexes breaks a *proof obligation* — before any input is generated — and the check then goes on to search for a failing input.

The translator understands bytes literals, `+`, `%`-formatting with `%s`, `self.prefix`, `.to_bytes(4, "big")`, `.encode()`,
`bytes_from_hex(..)` / `bytes.fromhex(..)`, tuple components `value[0]`, and slices with constant bounds.  A source whose shape it
does not understand is reported as `unavailable` (the tie then rests on the correspondence check alone, which is the other permitted
way); it is never turned into a verdict.  What is *not* translated: control flow (the scanner's loops, the planner, the writer) —
those are tied by the correspondence check only.
"""
import ast
import os
import subprocess
import tempfile


class Unavailable(Exception):
    pass


def _bytes_lit(b):
    return "([" + ", ".join(str(x) for x in b) + "] : List Nat)"


class Tr:
    """translate one Python bytes-valued expression to a Lean term; collects the free variables it meets"""

    def __init__(self, prefix=None):
        self.prefix = prefix          # bytes of `self.prefix`, or None: a variable
        self.vars = []

    def var(self, name):
        name = {"match": "match_", "until": "until_"}.get(name, name)      # Lean keywords / the model's spelling
        if name not in self.vars:
            self.vars.append(name)
        return name

    def name_of(self, node):
        """a stable variable name for a simple value expression"""
        if isinstance(node, ast.Name):
            return node.id
        if isinstance(node, ast.Attribute) and isinstance(node.value, ast.Name):
            return node.value.id + "_" + node.attr
        if isinstance(node, ast.Subscript) and isinstance(node.slice, ast.Constant) and isinstance(node.slice.value, int):
            return self.name_of(node.value) + "_" + str(node.slice.value)
        raise Unavailable("not a simple value: " + ast.dump(node)[:80])

    def tr(self, n):
        if isinstance(n, ast.Constant) and isinstance(n.value, bytes):
            return _bytes_lit(n.value)
        if isinstance(n, ast.BinOp) and isinstance(n.op, ast.Add):
            return "(%s ++ %s)" % (self.tr(n.left), self.tr(n.right))
        if isinstance(n, ast.BinOp) and isinstance(n.op, ast.Mod) and isinstance(n.left, ast.Constant) and isinstance(n.left.value, bytes):
            args = list(n.right.elts) if isinstance(n.right, ast.Tuple) else [n.right]
            pieces = n.left.value.split(b"%s")
            if len(pieces) != len(args) + 1 or b"%" in b"".join(pieces):
                raise Unavailable("format string")
            out = []
            for i, p in enumerate(pieces):
                if p:
                    out.append(_bytes_lit(p))
                if i < len(args):
                    out.append(self.tr(args[i]))
            return "(" + " ++ ".join(out) + ")" if out else _bytes_lit(b"")
        if isinstance(n, ast.Attribute) and isinstance(n.value, ast.Name) and n.value.id == "self" and n.attr == "prefix":
            return _bytes_lit(self.prefix) if self.prefix is not None else self.var("self_prefix")
        if isinstance(n, ast.Call):
            f = n.func
            if isinstance(f, ast.Attribute) and f.attr == "to_bytes":
                a = n.args
                if len(a) == 2 and isinstance(a[0], ast.Constant) and a[0].value == 4 and isinstance(a[1], ast.Constant) and a[1].value == "big":
                    return self.var(self.name_of(f.value) + "_be4")
                raise Unavailable("to_bytes width")
            if isinstance(f, ast.Attribute) and f.attr == "encode" and not n.args:
                return self.var(self.name_of(f.value) + "_utf8")
            if (isinstance(f, ast.Name) and f.id == "bytes_from_hex") or \
                    (isinstance(f, ast.Attribute) and f.attr == "fromhex" and isinstance(f.value, ast.Name) and f.value.id == "bytes"):
                return self.var(self.name_of(n.args[0]) + "_hex")
            raise Unavailable("call " + ast.dump(f)[:60])
        if isinstance(n, ast.Subscript) and isinstance(n.slice, ast.Slice):
            lo, hi = n.slice.lower, n.slice.upper

            def const(x):
                if x is None:
                    return None
                if isinstance(x, ast.UnaryOp) and isinstance(x.op, ast.USub) and isinstance(x.operand, ast.Constant):
                    return -x.operand.value
                if isinstance(x, ast.Constant) and isinstance(x.value, int):
                    return x.value
                raise Unavailable("slice bound")
            v = self.tr(n.value)
            if hi is None and const(lo) is not None and const(lo) < 0:
                return "(lastN %d %s)" % (-const(lo), v)
            if isinstance(hi, ast.Name) and lo is None:
                return "(List.take %s %s)" % (self.var(hi.id), v)
            a, b = const(lo), const(hi)
            if a is not None and b is not None:
                return "(pySlice %s (%d) (%d))" % (v, a, b)
            raise Unavailable("slice shape")
        if isinstance(n, (ast.Name, ast.Attribute)) or (isinstance(n, ast.Subscript)):
            return self.var(self.name_of(n))
        raise Unavailable(ast.dump(n)[:80])


def _lean_def(name, tr, body, nat_vars=()):
    binders = " ".join("(%s : %s)" % (v, "Nat" if v in nat_vars else "List Nat") for v in tr.vars)
    return "def %s %s : List Nat := %s" % (name, binders, body)


def _find(nodes, pred):
    for n in nodes:
        for x in ast.walk(n):
            if pred(x):
                return x
    return None


def extract(repo):
    """returns (defs: {name: lean text}, facts: {...}, unavailable: [(item, why)])"""
    path = os.path.join(repo, "nostr_relay", "storage", "kv.py")
    tree = ast.parse(open(path).read())
    classes = {c.name: c for c in tree.body if isinstance(c, ast.ClassDef)}
    funcs = {f.name: f for f in tree.body if isinstance(f, ast.FunctionDef)}
    defs, facts, unavailable = {}, {}, []

    def attempt(item, fn):
        try:
            fn()
        except Unavailable as e:
            unavailable.append((item, str(e)))
        except Exception as e:                      # the source has a shape the translator was not written for
            unavailable.append((item, "%s: %s" % (type(e).__name__, e)))

    def class_prefix(c):
        for st in c.body:
            if isinstance(st, ast.Assign) and any(isinstance(t, ast.Name) and t.id == "prefix" for t in st.targets):
                if isinstance(st.value, ast.Constant) and isinstance(st.value.value, bytes):
                    return st.value.value
        raise Unavailable("no literal prefix in class " + c.name)

    def method(c, name):
        for st in c.body:
            if isinstance(st, ast.FunctionDef) and st.name == name:
                return st
        raise Unavailable("no method %s.%s" % (c.name, name))

    key_names = {"IdIndex": "idKey", "CreatedIndex": "createdKey", "KindIndex": "kindKey", "PubkeyIndex": "pubkeyKey",
                 "TagIndex": "tagKey", "AuthorKindIndex": "authorKindKey"}
    for cname, lname in key_names.items():
        def one(cname=cname, lname=lname):
            c = classes.get(cname)
            if c is None:
                raise Unavailable("class %s is gone" % cname)
            m = method(c, "to_key")
            rets = [s for s in m.body if isinstance(s, ast.Return)]
            if len(m.body) != 1 or not rets:
                raise Unavailable("%s.to_key is not a single return" % cname)
            t = Tr(class_prefix(c))
            defs[lname] = _lean_def(lname, t, t.tr(rets[0].value))
            facts[lname + "_vars"] = list(t.vars)
        attempt(cname + ".to_key", one)

    def write_fmt():
        m = method(classes["Index"], "write")
        a = _find(m.body, lambda x: isinstance(x, ast.Assign) and isinstance(x.targets[0], ast.Name) and x.targets[0].id == "to_save")
        if a is None:
            raise Unavailable("no to_save")
        t = Tr()
        defs["fullKey"] = _lean_def("fullKey", t, t.tr(a.value))
        facts["fullKey_vars"] = list(t.vars)
    attempt("Index.write", write_fmt)

    def index_order():
        a = _find(tree.body, lambda x: isinstance(x, ast.Assign) and isinstance(x.targets[0], ast.Name) and x.targets[0].id == "INDEXES")
        if a is None or not isinstance(a.value, ast.Dict):
            raise Unavailable("INDEXES is not a dict literal")
        order = []
        for k, v in zip(a.value.keys, a.value.values):
            if not (isinstance(k, ast.Constant) and isinstance(v, ast.Call) and isinstance(v.func, ast.Name)):
                raise Unavailable("INDEXES entry")
            order.append((k.value, v.func.id))
        facts["index_order"] = order
    attempt("INDEXES", index_order)

    def scanner():
        m = method(classes["Index"], "scanner")

        def assign(nodes, name):
            return _find(nodes, lambda x: isinstance(x, ast.Assign) and isinstance(x.targets[0], ast.Name) and x.targets[0].id == name)
        # add_time
        a = assign(m.body, "add_time")
        if a is None:
            raise Unavailable("add_time")
        t = Tr()
        defs["addTime"] = _lean_def("addTime", t, t.tr(a.value))
        # the branch on compiled_matches
        br = _find(m.body, lambda x: isinstance(x, ast.If) and isinstance(x.test, ast.Name) and x.test.id == "compiled_matches")
        if br is None:
            raise Unavailable("if compiled_matches")
        sr = _find(br.body, lambda x: isinstance(x, ast.Call) and isinstance(x.func, ast.Attribute) and x.func.attr == "set_range")
        t = Tr()
        defs["seekKey"] = _lean_def("seekKey", t, t.tr(sr.args[0]))
        aug = _find(br.body, lambda x: isinstance(x, ast.AugAssign) and isinstance(x.target, ast.Name) and x.target.id == "stop")
        t = Tr()
        defs["stopSince"] = _lean_def("stopSince", t, "(%s ++ %s)" % (t.var("stop"), t.tr(aug.value)))
        starts = [x for n in br.orelse for x in ast.walk(n)
                  if isinstance(x, ast.Assign) and isinstance(x.targets[0], ast.Name) and x.targets[0].id == "start"]
        if len(starts) != 2:
            raise Unavailable("range start keys")
        for a in starts:
            t = Tr()
            body = t.tr(a.value)
            nm = "rangeStartUntil" if "until_" in t.vars else "rangeStartOpen"
            defs[nm] = _lean_def(nm, t, body)
        aug = _find(br.orelse, lambda x: isinstance(x, ast.AugAssign) and isinstance(x.target, ast.Name) and x.target.id == "stop")
        t = Tr()
        defs["rangeStopSince"] = _lean_def("rangeStopSince", t, "(%s ++ %s)" % (t.var("stop"), t.tr(aug.value)))
        st0 = _find(br.orelse, lambda x: isinstance(x, ast.Assign) and isinstance(x.targets[0], ast.Name) and x.targets[0].id == "stop")
        t = Tr()
        defs["rangeStop0"] = _lean_def("rangeStop0", t, t.tr(st0.value))
        it = _find(m.body, lambda x: isinstance(x, ast.FunctionDef) and x.name == "iterator")
        a = assign(it.body, "ts")
        t = Tr()
        defs["tsOf"] = _lean_def("tsOf", t, t.tr(a.value))
        a = assign(it.body, "event_id")
        t = Tr()
        defs["idOf"] = _lean_def("idOf", t, t.tr(a.value))
        cmpn = _find(it.body, lambda x: isinstance(x, ast.Compare) and isinstance(x.left, ast.Subscript)
                     and isinstance(x.left.slice, ast.Slice) and isinstance(x.comparators[0], ast.Name) and x.comparators[0].id == "match")
        t = Tr()
        defs["keyHead"] = "def keyHead (key : List Nat) (matchlen : Nat) : List Nat := " + t.tr(cmpn.left)
        cmpn = _find(it.body, lambda x: isinstance(x, ast.Compare) and isinstance(x.left, ast.Subscript)
                     and isinstance(x.left.slice, ast.Slice) and isinstance(x.comparators[0], ast.Attribute) and x.comparators[0].attr == "prefix")
        t = Tr()
        defs["firstByte"] = _lean_def("firstByte", t, t.tr(cmpn.left))
        # the yield of the range branch
        wh = [x for x in ast.walk(it) if isinstance(x, ast.While)]
        y = _find(wh[-1:], lambda x: isinstance(x, ast.Yield))
        t = Tr()
        defs["rangeIdOf"] = _lean_def("rangeIdOf", t, t.tr(y.value))
    attempt("Index.scanner", scanner)

    def record():
        f = funcs.get("encode_event")
        a = _find(f.body, lambda x: isinstance(x, ast.Assign) and isinstance(x.targets[0], ast.Name) and x.targets[0].id == "row")
        if a is None or not isinstance(a.value, ast.Tuple):
            raise Unavailable("row tuple")
        ver = _find(tree.body, lambda x: isinstance(x, ast.Assign) and isinstance(x.targets[0], ast.Name) and x.targets[0].id == "VERSION")
        fields = {"id_bytes": ".bin r.id", "created_at": ".int r.created", "kind": ".int r.kind", "content": ".str r.content",
                  "tags": "r.tags"}
        hexed = {"pubkey": ".bin r.pubkey", "sig": ".bin r.sig", "id": ".bin r.id"}
        out = []
        for e in a.value.elts:
            if isinstance(e, ast.Name) and e.id == "VERSION":
                out.append(".int %d" % ver.value.value)
            elif isinstance(e, ast.Attribute) and isinstance(e.value, ast.Name) and e.value.id == "event" and e.attr in fields:
                out.append(fields[e.attr])
            elif isinstance(e, ast.Call) and isinstance(e.func, ast.Attribute) and e.func.attr == "fromhex" and \
                    isinstance(e.args[0], ast.Attribute) and e.args[0].attr in hexed:
                out.append(hexed[e.args[0].attr])
            else:
                raise Unavailable("row element " + ast.dump(e)[:60])
        defs["encodeRow"] = "def encodeRow (r : NostrRelay.MP.Row) : NostrRelay.MP.V := .arr [" + ", ".join(out) + "]"
        kw = {k.arg: k.value for k in f.body[-1].value.keywords} if False else None
        pk = _find(f.body, lambda x: isinstance(x, ast.Call) and isinstance(x.func, ast.Name) and x.func.id == "packb")
        ub = any(k.arg == "use_bin_type" and isinstance(k.value, ast.Constant) and k.value.value is True for k in pk.keywords)
        if not ub:
            raise Unavailable("packb without use_bin_type=True: the model's str/bin formats do not apply")
    attempt("encode_event", record)

    def storable():
        f = funcs.get("check_storable")
        c = _find(f.body, lambda x: isinstance(x, ast.Compare) and isinstance(x.ops[0], ast.Gt) and isinstance(x.comparators[0], ast.Constant))
        if c is None:
            raise Unavailable("key size comparison")
        defs["maxKey"] = "def maxKey : Nat := %d" % c.comparators[0].value
    attempt("check_storable", storable)
    return defs, facts, unavailable


# the index whose convert() key the model's `convKeys` lists, by class, with the model's arguments (named: the order of the
# Python expression's variables does not matter)
_CONV = {
    "CreatedIndex": ("createdKey", {"value_be4": "ts"}),
    "KindIndex": ("kindKey", {"value_be4": "kd"}),
    "PubkeyIndex": ("pubkeyKey", {"value_hex": "e.pubkey"}),
    "AuthorKindIndex": ("authorKindKey", {"value_0_hex": "e.pubkey", "value_1_be4": "kd"}),
}


def _app(name, args):
    return "X." + name + "".join(" (%s := %s)" % (k, v) for k, v in args.items())


def theorems(defs, facts):
    """(name, lean text) for every tie theorem whose ingredients were extracted"""
    T = []
    have = lambda *ns: all(n in defs for n in ns)
    if have("idKey"):
        T.append(("tie_primaryKey", "theorem tie_primaryKey (i : Bytes) : %s = primaryKey i := by simp [X.idKey, primaryKey]"
                  % _app("idKey", {"value_hex": "i"})))
    if have("tagKey"):
        T.append(("tie_tagKey", "theorem tie_tagKey (n v : Bytes) : %s = tagKey n v := by simp [X.tagKey, tagKey]"
                  % _app("tagKey", {"value_0_utf8": "n", "value_1_utf8": "v"})))
    if have("fullKey"):
        T.append(("tie_fullKey", "theorem tie_fullKey (c t i : Bytes) : %s = fullKey c t i := by simp [X.fullKey, fullKey]"
                  % _app("fullKey", {"key": "c", "ctime": "t", "event_id": "i"})))
    if have("createdKey", "kindKey", "pubkeyKey", "authorKindKey", "tagKey") and "index_order" in facts:
        order = [c for _, c in facts["index_order"] if c in _CONV or c == "TagIndex"]
        fixed = [_app(*_CONV[c]) for c in order if c in _CONV]
        tags_last = order and order[-1] == "TagIndex"
        body = "[" + ", ".join(fixed) + "]"
        tagpart = "(e.tags.filter isIndexableTag).map fun t => %s" % _app("tagKey", {"value_0_utf8": "(t.getD 0 [])", "value_1_utf8": "(t.getD 1 [])"})
        rhs = "%s ++ (%s)" % (body, tagpart) if tags_last else "(%s) ++ %s" % (tagpart, body)
        T.append(("tie_convKeys",
                  "theorem tie_convKeys (e : Event) (ts kd : Bytes) (h1 : be32 e.createdAt = some ts) (h2 : be32 e.kind = some kd) :\n"
                  "    convKeys e = some (%s) := by\n"
                  "  simp [convKeys, h1, h2, X.createdKey, X.kindKey, X.pubkeyKey, X.authorKindKey, X.tagKey, tagKey]" % rhs))
        # the primary index is written first
        first = facts["index_order"][0][1] if facts["index_order"] else None
        T.append(("tie_primary_first", "theorem tie_primary_first : (%s : Bool) = true := by decide"
                  % ("true" if first == "IdIndex" else "false")))
    if have("addTime", "stopSince"):
        T.append(("tie_scanIndex",
                  "theorem tie_scanIndex (s : Store) (mats : List Bytes) (since until_ : Option Int) (ev : Option (List Bytes)) :\n"
                  "    scanIndex s mats since until_ ev =\n"
                  "      (encOpt since).bind fun sB => (encOpt until_).bind fun uB =>\n"
                  "        some (scanMatches s ⟨sB, uB, (match sB with | some sn => %s | none => mats.getLastD []), ev⟩\n"
                  "          (match uB with | some u => %s | none => []) mats true) := by\n"
                  "  unfold scanIndex\n"
                  "  cases encOpt since <;> cases encOpt until_ <;> simp [X.stopSince, X.addTime] <;>\n"
                  "    (try (split <;> simp)) <;> (try (split <;> simp))"
                  % (_app("stopSince", {"stop": "(mats.getLastD [])", "since": "sn"}), _app("addTime", {"until_": "u"}))))
    if have("seekKey"):
        sk = _app("seekKey", {"match_": "m", "add_time": "a"})
        T.append(("tie_scanMatches",
                  "theorem tie_scanMatches (s : Store) (cfg : ScanCfg) (a m : Bytes) (ms : List Bytes) (first : Bool) :\n"
                  "    scanMatches s cfg a (m :: ms) first =\n"
                  "      (if seekFinds s (%s) then\n"
                  "         (match (walk cfg m (below s (%s))).2 with\n"
                  "          | .nextMatch => (walk cfg m (below s (%s))).1 ++ scanMatches s cfg a ms false\n"
                  "          | .endAll => (walk cfg m (below s (%s))).1)\n"
                  "       else if first then scanMatches s cfg a ms false else []) := by\n"
                  "  rw [scanMatches]; simp only [X.seekKey, List.append_assoc] <;> rfl" % (sk, sk, sk, sk)))
    if have("tsOf", "keyHead"):
        T.append(("tie_badKey",
                  "theorem tie_badKey (cfg : ScanCfg) (m k : Bytes) :\n"
                  "    badKey cfg m k = ((X.keyHead k m.length != m)\n"
                  "      || (match cfg.since with | some sn => decide (X.tsOf k < sn) | none => false)\n"
                  "      || (match cfg.until_ with | some u => decide (u < X.tsOf k) | none => false)) := by\n"
                  "  unfold badKey X.keyHead X.tsOf; rfl"))
    if have("idOf"):
        T.append(("tie_walk_id",
                  "theorem tie_walk_id (cfg : ScanCfg) (m k : Bytes) (h1 : badKey cfg m k = false) (h2 : ¬ k < cfg.stop)\n"
                  "    (h3 : inEvents cfg (X.idOf k) = true) : (walk cfg m [k]).1 = [X.idOf k] := by\n"
                  "  simp [X.idOf] at h3 ⊢\n"
                  "  simp [walk, h1, h2, h3]"))
    if have("rangeStartUntil", "rangeStartOpen", "rangeStopSince", "rangeStop0", "firstByte", "rangeIdOf"):
        T.append(("tie_scanRange",
                  "theorem tie_scanRange (s : Store) (pfx : Bytes) (since until_ : Option Int) :\n"
                  "    scanRange s pfx since until_ =\n"
                  "      (encOpt since).bind fun sB => (encOpt until_).bind fun uB =>\n"
                  "        match (skeys s).filter (fun k => !(decide (k < (match uB with | some u => %s | none => %s)))) with\n"
                  "        | [] => some []\n"
                  "        | k0 :: _ => some (((k0 :: below s k0).takeWhile (fun k => decide ((match sB with | some sn => %s | none => %s) < k))).filterMap\n"
                  "            fun k => if X.firstByte k == pfx then some (X.rangeIdOf k) else none) := by\n"
                  "  have hmin : ∀ k : Bytes, List.take (min 1 k.length) k = List.take 1 k := by intro k; cases k <;> simp\n"
                  "  unfold scanRange\n"
                  "  cases encOpt since <;> cases encOpt until_ <;>\n"
                  "    simp [hmin, X.rangeStartUntil, X.rangeStartOpen, X.rangeStopSince, X.rangeStop0, X.firstByte, X.rangeIdOf, pySlice, pyIdx] <;>\n"
                  "    (try rfl)"
                  % (_app("rangeStartUntil", {"self_prefix": "pfx", "until_": "u"}), _app("rangeStartOpen", {"self_prefix": "pfx"}),
                     _app("rangeStopSince", {"stop": "(%s)" % _app("rangeStop0", {"self_prefix": "pfx"}), "since": "sn"}),
                     _app("rangeStop0", {"self_prefix": "pfx"}))))
    if have("maxKey"):
        T.append(("tie_maxKey", "theorem tie_maxKey : X.maxKey = maxKeySize := by decide"))
    if have("encodeRow"):
        T.append(("tie_encodeRow", "theorem tie_encodeRow (r : NostrRelay.MP.Row) : X.encodeRow r = NostrRelay.MP.encodeRow r := rfl"))
    return T


def lean_text(defs, thms):
    lines = ["import NostrRelay.Model.KV", "import NostrRelay.Model.MsgPack", "open NostrRelay NostrRelay.KV", "",
             "/-! generated from /repo/nostr_relay/storage/kv.py by harness/lib/translate.py — do not edit -/", "namespace X"]
    lines += [defs[k] for k in sorted(defs)]
    lines += ["end X", ""]
    for _, t in thms:
        lines += [t, ""]
    return "\n".join(lines)


def run(repo, lean_dir, keep=None):
    """translate, let Lean check the tie; returns a dict for the evidence and the verdict logic:
       {"status": "checked" | "broken" | "partial", "theorems": [...], "failed": [(name, message)], "unavailable": [...]}"""
    defs, facts, unavailable = extract(repo)
    thms = theorems(defs, facts)
    text = lean_text(defs, thms)
    d = tempfile.mkdtemp(prefix="tie-")
    path = os.path.join(d, "Tie.lean")
    open(path, "w").write(text)
    if keep:
        open(keep, "w").write(text)
    try:
        p = subprocess.run(["lake", "env", "lean", path], cwd=lean_dir, stdout=subprocess.PIPE, stderr=subprocess.STDOUT, text=True,
                           timeout=900)
    finally:
        pass
    failed = []
    if p.returncode != 0 or "error" in p.stdout:
        src = text.split("\n")
        # attribute each error to the theorem / definition whose text contains its line
        starts = []
        for i, l in enumerate(src):
            if l.startswith("theorem ") or l.startswith("def "):
                starts.append((i + 1, l.split()[1]))
        for l in p.stdout.splitlines():
            if ": error" in l:
                try:
                    ln = int(l.split(":")[1])
                except Exception:
                    ln = 0
                owner = [n for s, n in starts if s <= ln]
                failed.append((owner[-1] if owner else "?", l.split("error:", 1)[-1].strip()[:200]))
        if not failed:
            failed.append(("?", p.stdout[-300:]))
    import shutil
    shutil.rmtree(d, ignore_errors=True)
    names = [n for n, _ in thms]
    bad = sorted({n for n, _ in failed})
    return {"status": "broken" if failed else ("partial" if unavailable else "checked"),
            "theorems": names, "failed": failed, "failed_names": bad, "unavailable": unavailable,
            "definitions": {k: defs[k] for k in sorted(defs)}}


if __name__ == "__main__":
    import json
    import sys
    repo = sys.argv[1] if len(sys.argv) > 1 else "/repo"
    here = os.path.dirname(os.path.dirname(os.path.dirname(os.path.abspath(__file__))))
    r = run(repo, os.environ.get("VERIF_LEAN") or os.path.join(here, "lean"), keep=sys.argv[2] if len(sys.argv) > 2 else None)
    print(json.dumps({k: v for k, v in r.items() if k != "definitions"}, indent=1))
