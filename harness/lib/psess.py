"""
Protocol sessions for C05 / C13 / C19: random multi-connection histories of REQ / CLOSE / EVENT /
disconnect driven through the real web.start_client (lib.proto), and the same history given to the Lean
protocol machine (`proto.session`: one label per message followed by the settled schedule).

The abstract inputs of the machine are computed here from an independent reference, not read off the
implementation: `usable` from the filter texts (the generator knows which filters it made invalid),
`answer` and `match` from the NIP-01 reference matcher (lib.spec, cross-checked against the Lean
`matchesSpec` by C01/C02), `accepted` from "validly signed and not seen before".
"""
import copy
import json

from lib import spec

T0 = 1700000000

SUB_NAMES = ["a", "b", "c", 5, "5", None, "long-" + "x" * 40, 'q"uo\\te', "", 0, False]


def sub_key(name):
    return str(name)


class Names:
    """strings <-> the naturals the model uses"""

    def __init__(self):
        self.ids = {}

    def __call__(self, s):
        return self.ids.setdefault(s, len(self.ids))


def gen_filter(rng, keys, known_ids):
    """(json filter, kind) with kind in valid / invalid / notquery"""
    r = rng.random()
    pks = [k.public_key.hex() for k in keys]
    if r < 0.62:
        f = {}
        c = rng.random()
        if c < 0.35:
            f["kinds"] = rng.sample([1, 7, 30000], rng.randint(1, 2))
        elif c < 0.6:
            f["authors"] = rng.sample(pks, rng.randint(1, 2))
        elif c < 0.75 and known_ids:
            f["ids"] = rng.sample(known_ids, min(len(known_ids), rng.randint(1, 2)))
        elif c < 0.9:
            f["#t"] = rng.sample(["x", "y", "z"], rng.randint(1, 2))
        else:
            f["kinds"] = [1]
            f["authors"] = [rng.choice(pks)]
        if rng.random() < 0.25:
            f["since"] = T0 + rng.choice([5, 15, 25]) * 10 + 5     # never equal to an event's timestamp
        if rng.random() < 0.2:
            f["until"] = T0 + rng.choice([15, 25, 45]) * 10 + 5
        return f, "valid"
    if r < 0.85:
        return rng.choice([{"ids": ["zz"]}, {"kinds": ["x"]}, {"since": -1}, {"authors": ["abc"]}, {"limit": -1, "kinds": [1]},
                           {"until": "soon"}]), "invalid"
    return rng.choice([5, "s", None, [1], True]), "notquery"


def gen_session(rng, keys, relay, n_msgs, limit, holds=False):
    """a list of message dicts; events are created lazily by the runner (they need the relay's signer)"""
    msgs = []
    n_conns = rng.randint(2, 4)
    for c in range(n_conns):
        msgs.append({"t": "connect", "c": c})
    live = set(range(n_conns))
    next_c = n_conns
    n_events = 0
    for _ in range(n_msgs):
        if not live:
            msgs.append({"t": "connect", "c": next_c})
            live.add(next_c)
            next_c += 1
            continue
        c = rng.choice(sorted(live))
        r = rng.random()
        if holds and r < 0.12:
            # a REQ whose stored query is kept running (suspended at its start) while other messages are processed
            msgs.append({"t": "req", "c": c, "sub": rng.choice(SUB_NAMES[:3]), "nf": rng.choice([1, 1, 2]), "hold": True,
                         "force_valid": rng.random() < 0.6})
        elif holds and r < 0.20:
            msgs.append({"t": "release", "c": c})
        elif r < 0.40:
            nf = rng.choice([0, 1, 1, 1, 2, 3])
            msgs.append({"t": "req", "c": c, "sub": rng.choice(SUB_NAMES[:4] if rng.random() < 0.7 else SUB_NAMES), "nf": nf})
        elif r < 0.52:
            msgs.append({"t": "close", "c": c, "sub": rng.choice(SUB_NAMES[:4] if rng.random() < 0.7 else SUB_NAMES)})
        elif r < 0.90:
            k = rng.random()
            msgs.append({"t": "event", "c": c, "what": "dup" if (k < 0.15 and n_events) else ("badsig" if k < 0.25 else "new")})
            n_events += 1
        elif r < 0.96:
            msgs.append({"t": "disconnect", "c": c})
            live.discard(c)
        else:
            msgs.append({"t": "connect", "c": next_c})
            live.add(next_c)
            next_c += 1
    # a burst that reaches the limit on one connection
    if live and rng.random() < 0.5:
        c = rng.choice(sorted(live))
        for i in range(limit + 2):
            msgs.append({"t": "req", "c": c, "sub": "lim%d" % i, "nf": 1, "force_valid": True})
        msgs.append({"t": "req", "c": c, "sub": "lim0", "nf": 1, "force_valid": True})      # replacement at the limit
        msgs.append({"t": "event", "c": c, "what": "new"})
    for c in sorted(live):
        if rng.random() < 0.5:
            msgs.append({"t": "disconnect", "c": c})
    return msgs


REFUSALS = []      # reasons of the OK=false frames seen (diagnostics for replay files)


def canon_frames(frames):
    """real frames of one connection -> comparable tuples"""
    out = []
    for f in frames:
        if not isinstance(f, list) or not f:
            out.append(("UNPARSABLE", repr(f)[:40]))
        elif f[0] == "EVENT":
            out.append(("EVENT", f[1], f[2].get("id") if isinstance(f[2], dict) else None))
        elif f[0] == "EOSE":
            out.append(("EOSE", f[1]))
        elif f[0] == "OK":
            out.append(("OK", f[1] if f[2] else None, bool(f[2])))
            if not f[2]:
                REFUSALS.append(str(f[3])[:200])
        elif f[0] == "NOTICE":
            out.append(("NOTICE",))
        else:
            out.append((f[0],))
    return out


class Runner:
    """runs one generated session on the real relay, building the model's message list alongside"""

    def __init__(self, relay, rng, keys, limit):
        from nostr_relay.storage.base import NostrQuery

        self.NostrQuery = NostrQuery
        self.relay, self.rng, self.keys, self.limit = relay, rng, keys, limit
        self.conns = {}
        self.names = Names()       # subscription names
        self.evn = Names()         # event ids
        self.events = []           # accepted events (json), in order
        self.all_sent = []         # every event json ever submitted
        self.open = {}             # (c, subkey) -> validated filters  (reference registry)
        self.model_msgs = []
        self.real_steps = []       # per message: {c: canon frames}
        self.real_subs = []
        self.sent_msgs = []        # the concrete client messages (for the replay file)
        self.clock = 0
        self.addr_mod = 2
        self.gates = {}            # (conn no, sub name) -> asyncio.Event: held query tasks
        self.held = {}             # (conn no, sub name) -> (model REQ message, validated filters)
        self._orig_run_query = None

    # -- holding query tasks at their start (a wrapper around run_query, applied from outside) ---------------
    def install_holds(self):
        import asyncio

        cls = self.relay.storage.subscription_class
        self._orig_run_query = orig = cls.run_query
        runner = self

        async def run_query(sub):
            for (c, name), gate in list(runner.gates.items()):
                if name == sub.sub_id and runner.conns[c].queue_is(sub.queue) and not gate.is_set():
                    from lib import proto

                    proto.HELD["n"] += 1
                    try:
                        await gate.wait()
                    finally:
                        proto.HELD["n"] -= 1
                    break
            return await orig(sub)

        cls.run_query = run_query

    def uninstall_holds(self):
        if self._orig_run_query is not None:
            self.relay.storage.subscription_class.run_query = self._orig_run_query
            self._orig_run_query = None

    def release(self, key):
        """let the held query of (conn, name) run; returns the model message"""
        mm_req, valid = self.held.pop(key)
        if self.open.get(key) is valid:
            ans = [e for e in self.events if any(spec.matches(q, e, False) for q in valid)]
            mm_req["answer"] = [self.evn(e["id"]) for e in ans]
        gate = self.gates.pop(key, None)
        if gate is not None:
            gate.set()
        self.relay.settle()

    def release_all(self):
        for key in list(self.held):
            self.step({"t": "release", "c": key[0], "key": key})

    def _validate(self, f):
        try:
            return self.NostrQuery.model_validate(copy.deepcopy(f))
        except Exception:
            return None

    def _new_event(self, what):
        rng, relay = self.rng, self.relay
        if what == "dup" and self.all_sent:
            return copy.deepcopy(rng.choice(self.all_sent)), None
        sk = rng.choice(self.keys)
        self.clock += 1
        kind = rng.choice([1, 1, 1, 7, 30000])
        tags = []
        if rng.random() < 0.5:
            tags.append(["t", rng.choice(["x", "y", "w"])])
        if kind == 30000:
            tags.append(["d", "k%d" % self.clock])
        ev = relay.signed_event(sk, kind=kind, content="e%d" % self.clock, tags=tags, created_at=T0 + self.clock * 10)
        if what == "badsig":
            ev["sig"] = "00" * 64
        return ev, what

    def step(self, m):
        relay = self.relay
        c = m["c"]
        before = {k: len(v.out) for k, v in self.conns.items()}
        mm = {"t": m["t"], "c": c}
        concrete = None
        if m["t"] == "connect":
            from lib.proto import Conn

            self.conns[c] = Conn(relay, remote_addr="10.0.0.%d" % (c % self.addr_mod))      # connections share addresses
            before[c] = 0
        elif m["t"] == "disconnect":
            self.conns[c].close()
            for k in [k for k in self.open if k[0] == c]:
                del self.open[k]
            for k in [k for k in self.gates if k[0] == c]:
                self.gates.pop(k).set()         # the (cancelled or orphaned) task must not hang for ever
                self.held.pop(k, None)
        elif m["t"] == "release":
            key = m.get("key")
            if key is None:
                mine = sorted(k for k in self.held if k[0] == c) or sorted(self.held)
                key = self.rng.choice(mine) if mine else None
            if key is None or key not in self.held:
                return
            mm = {"t": "release", "c": key[0], "sub": self.names(key[1])}
            c = key[0]
            before = {k: len(v.out) for k, v in self.conns.items()}
            self.release(key)
        elif m["t"] == "close":
            concrete = ["CLOSE", m["sub"]]
            self.conns[c].send(concrete)
            self.open.pop((c, sub_key(m["sub"])), None)
            self.gates.pop((c, sub_key(m["sub"])), None)
            mm["sub"] = self.names(sub_key(m["sub"]))
        elif m["t"] == "req":
            known = [e["id"] for e in self.events]
            fl = []
            for _ in range(m["nf"]):
                f, kind = gen_filter(self.rng, self.keys, known)
                if m.get("force_valid"):
                    f, kind = {"kinds": [1, 7, 30000]}, "valid"
                elif m.get("force"):
                    while kind != m["force"]:
                        f, kind = gen_filter(self.rng, self.keys, known)
                fl.append((f, kind))
            concrete = ["REQ", m["sub"]] + [f for f, _ in fl]
            sk = sub_key(m["sub"])
            # reference semantics of subscribe()
            self.open.pop((c, sk), None)
            n_open = sum(1 for k in self.open if k[0] == c)
            valid = [self._validate(f) for f, k in fl if k == "valid"]
            mm["sub"] = self.names(sk)
            if n_open >= self.limit:
                mm.update(usable=True, allowed=False, answer=[])          # refused at the limit: NOTICE (the model decides this itself)
            elif any(k == "notquery" for _, k in fl):
                mm.update(usable=True, allowed=False, answer=[])          # "not a query": NOTICE
            elif not valid:
                mm.update(usable=False, allowed=True, answer=[])
            else:
                ans = [e for e in self.events if any(spec.matches(q, e, False) for q in valid)]
                mm.update(usable=True, allowed=True, answer=[self.evn(e["id"]) for e in ans])
                self.open[(c, sk)] = valid
            self.gates.pop((c, sk), None)
            self.held.pop((c, sk), None)
            if m.get("hold") and mm.get("usable") and mm.get("allowed"):
                import asyncio

                mm["hold"] = True
                self.gates[(c, sk)] = asyncio.Event()
                self.held[(c, sk)] = (mm, valid)
            self.conns[c].send(concrete)
        elif m["t"] == "event":
            ev, what = self._new_event(m["what"])
            concrete = ["EVENT", ev]
            seen = any(e["id"] == ev["id"] for e in self.events)
            ok = (what is None and not seen and ev["sig"] != "00" * 64) or what == "new"
            if what is None and not seen and ev["sig"] != "00" * 64:
                ok = True
            self.all_sent.append(ev)
            mm["ev"] = self.evn(ev["id"])
            mm["accepted"] = bool(ok)
            if ok:
                mm["match"] = [[k[0], self.names(k[1])] for k, qs in self.open.items() if any(spec.matches(q, ev, False) for q in qs)]
                self.events.append(ev)
            self.conns[c].send(concrete)
        self.sent_msgs.append({"c": c, "t": m["t"], "msg": concrete})
        self.model_msgs.append(mm)
        self.real_steps.append({k: canon_frames(v.frames(before.get(k, 0))) for k, v in self.conns.items()})
        self.real_subs.append(sorted(sorted(self.names(x) for x in v.keys()) for v in self.relay.storage.clients.values() if v))

    @staticmethod
    def model_subs(resp):
        by = {}
        for c, n in resp["subs"]:
            by.setdefault(c, []).append(n)
        return sorted(sorted(v) for v in by.values())

    def model_frames(self, resp):
        """model output of one message -> {c: comparable tuples} with names mapped back"""
        inv_n = {v: k for k, v in self.names.ids.items()}
        inv_e = {v: k for k, v in self.evn.ids.items()}
        out = {}
        for c, frames in resp["frames"]:
            l = []
            for f in frames:
                if f[0] == "EVENT":
                    l.append(("EVENT", inv_n[f[1]], inv_e[f[2]]))
                elif f[0] == "EOSE":
                    l.append(("EOSE", inv_n[f[1]]))
                elif f[0] == "OK":
                    l.append(("OK", inv_e[f[1]] if f[2] else None, f[2]))
                else:
                    l.append(("NOTICE",))
            out[c] = l
        return out
