"""
Query bench for the SQL backend (SQLite), shared by C01 / C02 / C11 / C12: loads a store through the
real add_event, asks a REQ (list of raw filters) through NostrQuery validation, build_query and
run_query, and compares with the Lean model `matchingRows` / `effectiveLimit`.
"""
import re

from lib import common
from lib.sqlimpl import SQLImpl, model_event, model_filter

BIND_RE = re.compile(r"(?<![:\w\\]):(\w+)(?!:)|\\:")


def text_hazard(q):
    """values that the SQLite tokenizer cannot take inside statement text (NUL): outside the model.  (Values that
    SQLAlchemy's text() used to rewrite — ':word', '\\:' — are ordinary values since the fix: commit that escapes colons.)"""
    for name, vals in (q.tags or []):
        for v in list(vals) + [name]:
            if "\x00" in v:
                return True
    return False


class SQLBench:
    def __init__(self, report, drv, impl=None):
        self.report = report
        self.drv = drv
        self.impl = impl or SQLImpl()
        self.events = []
        self.in_model = True

    def close(self):
        self.impl.close()

    def load_store(self, events):
        impl, drv = self.impl, self.drv
        impl.reset()
        drv.call({"op": "sql.reset"})
        self.in_model = True
        self.events = []
        for e in events:
            me = model_event(e)
            out, reason, gone, new = impl.add(e)
            self.events.append(e)
            if me is None:
                self.in_model = False
                continue
            if not self.in_model:
                continue
            m = drv.call({"op": "sql.add", "ev": me})
            if m != out:
                self.report.correspondence_break("db.DBStorage.add_event", {"events": self.events}, [out, reason], m)
                self.in_model = False
        if self.in_model:
            d = drv.call({"op": "sql.dump"})
            di = impl.dump()
            if d != di:
                self.report.correspondence_break("db.DBStorage.add_event(state)", {"events": self.events},
                                                 {"events": len(di["events"]), "tags": len(di["tags"])},
                                                 {"events": len(d["events"]), "tags": len(d["tags"])})
                self.in_model = False

    def ask(self, filters, default_limit=None):
        """filters: list of raw filter dicts (one REQ)"""
        impl = self.impl
        try:
            events, text, cleaned = impl.query(filters, default_limit=default_limit)
        except Exception as e:
            self.report.property_failure("REQ raised %r" % (e,), {"filters": filters}, None)
            return None
        res = {"filters": filters, "cleaned": cleaned, "text": text, "in_model": False}
        if events is None:
            res["ids"] = None
            return res
        ids = [e.id for e in events]
        res["ids"] = ids
        res["events"] = events
        mfs = [model_filter(q) for q in cleaned]
        hazard = any(text_hazard(q) for q in cleaned)
        res["hazard"] = hazard
        if self.in_model and all(m is not None for m in mfs):
            dl = common.MAX_LIMIT if default_limit is None else default_limit
            m = self.drv.call({"op": "sql.query", "filters": mfs, "default_limit": dl, "max_limit": common.MAX_LIMIT})
            res.update({"all": m["all"], "limit": m["limit"], "spec_strict": m["strict"], "spec_incl": m["incl"],
                        "ts": m["ts"], "have_model": True})
            if not hazard:
                res["in_model"] = True
                allm = set(m["all"])
                ts = m["ts"]
                ok = set(ids) <= allm and len(ids) == len(set(ids)) and len(ids) == min(m["limit"], len(allm))
                if ok and ids:
                    # ORDER BY created_at DESC (ties free) and the omitted ones are not newer
                    tss = [ts[i] for i in ids]
                    ok = all(a >= b for a, b in zip(tss, tss[1:]))
                    omitted = allm - set(ids)
                    if ok and omitted:
                        ok = max(ts[i] for i in omitted) <= min(tss)
                if not ok:
                    self.report.correspondence_break(
                        "db.Subscription.build_query/run_query", {"filters": filters, "events": self.events},
                        {"ids": ids}, {"all": m["all"], "limit": m["limit"]})
        return res
