"""
Adapter driving the real nostr_relay.storage.kv code in-process, synchronously:
  * lmdb environment through harness/shims/lmdb (E2 = real liblmdb when loadable)
  * WriterThread.run() executed in the calling thread, one batch at a time (tasks + None sentinel)
  * planner / execute_one_plan / KVGarbageCollector.collect called directly
and translating events / validated filters into the JSON the Lean driver expects.
"""
import asyncio
import logging
import shutil

from lib import common


def H(s):
    """utf-8 hex of a python str"""
    return s.encode("utf-8", "surrogatepass").hex() if isinstance(s, str) else None


class KVImpl:
    def __init__(self):
        common.setup_paths()
        import lmdb
        from nostr_relay.storage import kv
        from nostr_relay import util

        self.kv = kv
        self.lmdb = lmdb
        self.dir = common.scratch_dir("nrkv-")
        self.env = lmdb.open(path=self.dir, max_spare_txns=9, map_size=64 << 20)

        class _S:
            pass

        s = _S()
        s.db = self.env
        kv.LMDBStorage.write_tombstone(s)
        self.stat = util.StatsCollector(60.0)
        self.writer = kv.WriterThread(self.env, self.stat)
        self.log = logging.getLogger("nostr_relay.verif")
        kv.analyze = lambda *a, **k: None

    def close(self):
        try:
            self.env.close()
        finally:
            shutil.rmtree(self.dir, ignore_errors=True)

    def reset(self):
        self.env.close()
        shutil.rmtree(self.dir, ignore_errors=True)
        self.__init__()

    # -- writer ------------------------------------------------------------------------------
    def run_tasks(self, tasks):
        """tasks: list of ("add", Event) / ("del", hexid); returns nothing (exceptions are swallowed
        by the real loop).  Returns per-task 'ok'/'abort' by comparing the keyspace? No: the real
        code hides it; use `task_outcome` when that is needed."""
        for t in tasks:
            self.writer.queue.put((t[0], [t[1]]))
        self.writer.queue.put(None)
        self.writer.running = True
        self.writer.run()

    def task_outcome(self, task):
        """run one task and report whether its transaction body raised (by intercepting the
        logger the writer uses for exceptions)"""
        seen = []
        orig = logging.Logger.exception

        def exc(lg, msg, *a, **k):
            if lg.name == "nostr_relay.writer":
                seen.append(msg)

        logging.Logger.exception = exc
        try:
            self.run_tasks([task])
        finally:
            logging.Logger.exception = orig
        return "abort" if seen else "ok"

    def dump(self):
        with self.env.begin() as txn:
            c = txn.cursor()
            return [bytes(k).hex() for k in c.iternext(values=False)]

    def stored(self):
        """{idhex: Event} of the primary records"""
        out = {}
        with self.env.begin(buffers=True) as txn:
            c = txn.cursor()
            for k, v in c.iternext():
                k = bytes(k)
                if k[:1] == b"\x00":
                    ev = self.kv.decode_event(self.kv.unpackb(bytes(v), use_list=False))
                    out[k[1:].hex()] = ev
        return out

    def get_event(self, idhex):
        with self.env.begin(buffers=True) as txn:
            return self.kv.decode_event(self.kv.get_event_data(txn, bytes.fromhex(idhex)))

    # -- queries -----------------------------------------------------------------------------
    def plan(self, query, default_limit=None):
        plans = self.kv.planner([query], default_limit=default_limit)
        return plans[0] if plans else None

    def execute(self, plan):
        plan.stats.clear()
        _, events = self.kv.execute_one_plan(self.env, plan, self.log)
        return [e.id for e in events]

    def index_name(self, plan):
        kv = self.kv
        names = {id(v): k for k, v in kv.INDEXES.items()}
        idx = plan.index
        if isinstance(idx, kv.MultiIndex):
            return "multi(%s)" % ",".join(names[id(i[0])] for i in idx.indexes)
        return names[id(idx)]

    # -- gc ----------------------------------------------------------------------------------
    def gc_collect(self, now):
        kv = self.kv
        queued = []

        class _Storage:
            async def delete_event(s, event_id):
                queued.append(event_id)

        gc = kv.KVGarbageCollector.__new__(kv.KVGarbageCollector)
        gc.storage = _Storage()
        orig = kv.time
        kv.time = lambda: now
        try:
            with self.env.begin() as conn:
                loop = asyncio.new_event_loop()
                try:
                    loop.run_until_complete(gc.collect(conn))
                finally:
                    loop.close()
        finally:
            kv.time = orig
        return queued


# ---------------------------------------------------------------------------------------------
# translation to the model's JSON
# ---------------------------------------------------------------------------------------------


def model_event(ev):
    """aionostr Event (or dict) -> driver JSON; None if outside the modelled fragment
    (non-string tag items, non-hex ids, non-int numbers)."""
    g = (lambda k: ev[k]) if isinstance(ev, dict) else (lambda k: getattr(ev, k))
    try:
        tags = []
        for t in g("tags"):
            if not isinstance(t, (list, tuple)):
                return None
            row = []
            for x in t:
                if not isinstance(x, str):
                    return None
                row.append(x.encode("utf-8").hex())
            tags.append(row)
        ca, kind = g("created_at"), g("kind")
        if isinstance(ca, bool) or not isinstance(ca, int) or isinstance(kind, bool) or not isinstance(kind, int):
            return None
        return {"id": bytes.fromhex(g("id")).hex(), "pubkey": bytes.fromhex(g("pubkey")).hex(),
                "created_at": ca, "kind": kind, "tags": tags}
    except (ValueError, UnicodeEncodeError, TypeError):
        return None


def model_filter(q):
    """validated NostrQuery -> driver JSON; None if outside the modelled fragment
    (ids/authors that are not exactly 64 hex digits, search)."""
    if q.search is not None:
        return None
    out = {}
    for name in ("ids", "authors"):
        v = getattr(q, name)
        if v is not None:
            if any(len(x) != 64 for x in v):
                return None
            out[name] = list(v)
    if q.kinds is not None:
        out["kinds"] = list(q.kinds)
    if q.since is not None:
        out["since"] = q.since
    if q.until is not None:
        out["until"] = q.until
    if q.limit is not None:
        out["limit"] = q.limit
    if q.tags:
        try:
            out["tags"] = [[t.encode("utf-8").hex(), sorted(v.encode("utf-8").hex() for v in vals)] for t, vals in q.tags]
        except UnicodeEncodeError:
            return None
    return out
