"""
Seeded, boundary-biased generators of events, histories and filters (DESIGN.md §3.3).
Every random choice derives from the `random.Random` passed in.
"""

AUTHORS = [
    "00" * 32,
    "ff" * 32,
    "00" * 31 + "01",
    "aa" * 32,
    "aa" * 31 + "ab",
    "ab" + "00" * 31,
    "65" + "12" * 31,  # first byte in the range of timestamp high bytes
]
KINDS = [0, 1, 3, 4, 5, 7, 9999, 10000, 10002, 19999, 20000, 29999, 30000, 30001, 39999, 40000, 65535, 65536, 16777215,
         16777216, 31494]
BIG_KINDS = [2 ** 32 - 1, 2 ** 32, -1]
T0 = 1700000000
TIMES = [T0, T0 + 1, T0 + 2, T0 + 50, T0 + 100, T0 + 255, T0 + 256, T0 + 65535, T0 + 65536, 0x65ffffff, 0x66000000,
         1, 255, 256, 2145934799,
         # far-future timestamps whose big-endian form starts with ff (no validator of the default configuration refuses
         # them; `until` cannot reach them, `since` can)
         0xfeffffff, 0xff000000, 0xff000001, 0xffffffff]
TAG_NAMES = ["e", "p", "t", "d", "a", "é", "expiration", "delegation", "client", "xy"]
TAG_VALUES = ["a", "ab", "abc", "b", "", "a\x00b", "é", "ü", "\U0001f600", "'", "a'b", "x:y", ":w", "%", "_", "--", "a b",
              "A", "0", "17", "1700000000"]


FAMILY = ["a", "ab", "abc", "b", "bc", "c", "", "abcd"]


def mkid(rng, i=None):
    style = rng.random()
    if style < 0.12:
        return "00" * 31 + "%02x" % rng.randrange(256)
    if style < 0.24:
        return "ff" + rng.randbytes(31).hex()
    if style < 0.30:
        return "00" + rng.randbytes(31).hex()
    return rng.randbytes(32).hex()


def gen_tags(rng, n=None, ids=()):
    tags = []
    for _ in range(rng.choice([0, 0, 1, 1, 2, 3, 4]) if n is None else n):
        name = rng.choice(TAG_NAMES)
        r = rng.random()
        if name == "e" and ids and r < 0.7:
            tags.append(["e", rng.choice(list(ids))])
        elif name == "p" and r < 0.7:
            tags.append(["p", rng.choice(AUTHORS)])
        elif name == "expiration":
            tags.append(["expiration", rng.choice(["1", "999", "1699999999", "1700000000", "1700000001", "17000000000",
                                                   "1700abc", "abc", ""])])
        elif r < 0.08:
            tags.append([name])
        else:
            t = [name, rng.choice(TAG_VALUES)]
            if rng.random() < 0.15:
                t.append(rng.choice(TAG_VALUES))
            tags.append(t)
    if tags and rng.random() < 0.1:
        tags.append(list(rng.choice(tags)))  # duplicate tag
    return tags


def gen_event(rng, known_ids=(), authors=None, kinds=None, times=None):
    return {
        "id": mkid(rng),
        "pubkey": rng.choice(authors or AUTHORS),
        "created_at": rng.choice(times or TIMES),
        "kind": rng.choice(kinds or KINDS),
        "tags": gen_tags(rng, ids=known_ids),
        "content": rng.choice(["", "hello", "é\n\"x\"", "x" * 10]),
        "sig": "00" * 64,
    }


def gen_filter(rng, events, limit_pool=(None, None, None, 0, 1, 2, 3, 5, 100)):
    """a conjunction built from values that occur in `events` (mostly) or nearby"""
    f = {}
    ev = rng.choice(events) if events else None
    r = rng.random()

    def pick_ids():
        out = []
        for _ in range(rng.choice([1, 1, 2, 3])):
            out.append(rng.choice(events)["id"] if events and rng.random() < 0.8 else mkid(rng))
        return out

    def pick_authors():
        out = []
        for _ in range(rng.choice([1, 1, 2, 3])):
            out.append(rng.choice(events)["pubkey"] if events and rng.random() < 0.7 else rng.choice(AUTHORS))
        return out

    def pick_kinds():
        out = []
        for _ in range(rng.choice([1, 1, 2, 3])):
            out.append(rng.choice(events)["kind"] if events and rng.random() < 0.7 else rng.choice(KINDS))
        return out

    parts = rng.choice([["ids"], ["authors"], ["kinds"], ["kinds", "authors"], ["tags"], ["kinds", "tags"],
                        ["authors", "tags"], ["authors", "kinds", "tags"], ["time"], ["ids", "kinds"], ["tags", "tags"],
                        ["ids", "tags"], ["kinds", "tags"]])
    for p in parts:
        if p == "ids":
            f["ids"] = pick_ids()
        elif p == "authors":
            f["authors"] = pick_authors()
        elif p == "kinds":
            f["kinds"] = pick_kinds()
        elif p == "tags":
            cand = [t for e in events for t in e["tags"] if len(t) >= 2 and len(t[0]) == 1] if events else []
            if cand and rng.random() < 0.8:
                t = rng.choice(cand)
                name, vals = t[0], [t[1]]
            else:
                name, vals = rng.choice(["e", "p", "t", "d", "é"]), [rng.choice(TAG_VALUES)]
            if rng.random() < 0.3:
                name, vals = rng.choice(["t", "t", "e", "d"]), [rng.choice(FAMILY)]
            for _ in range(rng.choice([0, 0, 1, 2])):
                vals.append(rng.choice(TAG_VALUES))
            f["#" + name] = vals
    if parts == ["time"] or rng.random() < 0.45:
        base = ev["created_at"] if ev else T0
        if rng.random() < 0.7:
            f["since"] = max(0, base + rng.choice([-101, -1, 0, 1, -65536, -256]))
        if rng.random() < 0.5 or ("since" not in f and parts == ["time"]):
            f["until"] = max(0, base + rng.choice([101, 1, 0, -1, 256, 65536]))
        if rng.random() < 0.05:
            f["since"] = 0
        if rng.random() < 0.06:
            f["until"] = 0          # nothing is that old: such a filter matches no event
    if rng.random() < 0.1:
        # hex strings of *more* than 64 digits pass the filter validation (only shorter ones are refused): they can match
        # no event, alone or next to proper values
        for k in ("ids", "authors"):
            if k in f and rng.random() < 0.7:
                long_ = rng.choice(f[k]) + rng.choice(["00", "0", "abcd", "00" * 5, "ff"])
                f[k] = [long_] if rng.random() < 0.5 else f[k] + [long_]
    if rng.random() < 0.2:
        # clients may send hex in either case; the relay lower-cases ids / authors when it validates the filter
        for k in ("ids", "authors"):
            if k in f:
                f[k] = [v.upper() if rng.random() < 0.5 else v for v in f[k]]
    lim = rng.choice(limit_pool)
    if lim is not None:
        f["limit"] = lim
    return f
