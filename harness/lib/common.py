"""
Shared machinery of the checks: paths, Lean build / axiom audit / driver, evidence, known findings,
verdict printing.  Python 3.12 (/venv/bin/python), no third-party dependency of its own.
"""
import os
import sys
import json
import time
import random
import hashlib
import subprocess
import re
import shutil
import tempfile

VERIF = os.path.dirname(os.path.dirname(os.path.dirname(os.path.abspath(__file__))))
REPO = os.environ.get("VERIF_REPO", "/repo")
# VERIF_LEAN: a frozen copy of the Lean project (sources + build) for scratch runs while lean/ is being edited
LEAN = os.environ.get("VERIF_LEAN") or os.path.join(VERIF, "lean")
HARNESS = os.path.join(VERIF, "harness")
# VERIF_EVIDENCE redirects the evidence / replay files of a run (used by tools/seeded.py when it runs the checks
# against scratch worktrees in parallel, so that those runs never overwrite the evidence of /repo itself)
EVIDENCE = os.environ.get("VERIF_EVIDENCE") or os.path.join(VERIF, "evidence")
REPLAYS = os.path.join(EVIDENCE, "replays")
DRIVER_BIN = os.path.join(LEAN, ".lake", "build", "bin", "driver")
ALLOWED_AXIOMS = {"propext", "Classical.choice", "Quot.sound"}
GUARD = "NOSTR_RELAY_VERIF"
MAX_LIMIT = 20


def setup_paths():
    """Make the *current* /repo working tree and the lmdb/msgpack stand-ins importable."""
    os.environ.setdefault(GUARD, "1")
    os.environ.setdefault("PYTHONHASHSEED", "0")
    for p in (os.path.join(HARNESS, "shims"), REPO, HARNESS):
        if p in sys.path:
            sys.path.remove(p)
    sys.path.insert(0, HARNESS)
    sys.path.insert(0, os.path.join(HARNESS, "shims"))
    sys.path.insert(0, REPO)
    import logging

    logging.disable(logging.CRITICAL)
    # a small max_limit so that limit semantics (C12) are reachable with small stores; must be set
    # before nostr_relay.storage.* is imported (default arguments capture it at import time)
    from nostr_relay.config import Config

    Config.max_limit = MAX_LIMIT


def seed_from_env(default=20260929):
    try:
        return int(os.environ.get("VERIF_SEED", default))
    except ValueError:
        return default


def scratch_dir(prefix="nrverif-"):
    base = os.environ.get("VERIF_SCRATCH") or tempfile.gettempdir()
    return tempfile.mkdtemp(prefix=prefix, dir=base)


# ----------------------------------------------------------------------------------------------
# Lean side
# ----------------------------------------------------------------------------------------------


class MachineryBroken(Exception):
    """The proof side (which does not depend on /repo) failed: exit 2, never a verdict."""


def _run(cmd, cwd=None, timeout=3600, env=None):
    p = subprocess.run(cmd, cwd=cwd, stdout=subprocess.PIPE, stderr=subprocess.STDOUT, timeout=timeout,
                       env=env, text=True)
    return p.returncode, p.stdout


def lean_sources_hash():
    h = hashlib.sha256()
    for root, dirs, files in os.walk(LEAN):
        dirs[:] = sorted(d for d in dirs if d not in (".lake",))
        for f in sorted(files):
            if f.endswith(".lean") or f.endswith(".toml"):
                p = os.path.join(root, f)
                h.update(p.encode())
                with open(p, "rb") as fp:
                    h.update(fp.read())
    return h.hexdigest()


def lean_build(clean=False):
    """lake build of the library (models + all property theorems) and the driver executable."""
    t0 = time.time()
    if clean:
        shutil.rmtree(os.path.join(LEAN, ".lake"), ignore_errors=True)
    rc, out = _run(["lake", "build", "NostrRelay", "driver"], cwd=LEAN, timeout=3 * 3600)
    if rc != 0:
        raise MachineryBroken("lake build failed:\n" + out[-4000:])
    return {"build_s": round(time.time() - t0, 2), "clean": clean}


FORBIDDEN = re.compile(r"\bsorry\b|\badmit\b|^axiom\s|native_decide|bv_decide|implemented_by|\bunsafe\s|maxHeartbeats\s+0")


def strip_lean_comments(src):
    """remove /- ... -/ (nested) and -- comments"""
    out = []
    i, n, depth = 0, len(src), 0
    while i < n:
        if src.startswith("/-", i):
            depth += 1
            i += 2
        elif depth and src.startswith("-/", i):
            depth -= 1
            i += 2
        elif depth:
            if src[i] == "\n":
                out.append("\n")
            i += 1
        elif src.startswith("--", i):
            while i < n and src[i] != "\n":
                i += 1
        else:
            out.append(src[i])
            i += 1
    return "".join(out)


def lean_grep_forbidden():
    hits = []
    for root, dirs, files in os.walk(LEAN):
        dirs[:] = [d for d in dirs if d != ".lake"]
        for f in files:
            if f.endswith(".lean"):
                p = os.path.join(root, f)
                code = strip_lean_comments(open(p).read())
                for ln, line in enumerate(code.split("\n"), 1):
                    if FORBIDDEN.search(line):
                        hits.append("%s:%d: %s" % (os.path.relpath(p, LEAN), ln, line.strip()))
    return hits


_AUTOGEN = re.compile(r"(^|\.)(eq_\d+|eq_def|match_\d+|proof_\d+|_[A-Za-z0-9_]*|injEq|sizeOf_spec|noConfusion\w*|"
                      r"rec\w*|casesOn|recOn|ext|ext_iff|inj|mk\.\w+|congr_simp)$")


def lean_audit():
    """`#print axioms`-equivalent for every theorem of NostrRelay.Props.*; cached on the source hash."""
    cache = os.path.join(LEAN, ".lake", "audit_cache.json")
    key = lean_sources_hash()
    if os.path.exists(cache):
        try:
            c = json.load(open(cache))
            if c.get("key") == key:
                return c["theorems"]
        except Exception:
            pass
    rc, out = _run(["lake", "env", "lean", "Audit.lean"], cwd=LEAN, timeout=3600)
    if rc != 0:
        raise MachineryBroken("axiom audit failed:\n" + out[-4000:])
    thms = []
    for line in out.splitlines():
        m = re.match(r"THEOREM (\S+) (\S+) AXIOMS ?(.*)$", line)
        if m:
            mod, name, axs = m.group(1), m.group(2), [a for a in m.group(3).split(",") if a]
            if _AUTOGEN.search(name):
                continue
            thms.append({"module": mod, "name": name, "axioms": axs})
    os.makedirs(os.path.dirname(cache), exist_ok=True)
    json.dump({"key": key, "theorems": thms}, open(cache, "w"))
    return thms


def proof_obligations(prop_id, tier):
    """Step 1 of the verdict logic.  Returns the coverage fragment for the evidence file."""
    info = lean_build(clean=False)
    hits = lean_grep_forbidden()
    if hits:
        raise MachineryBroken("forbidden constructs in Lean sources:\n" + "\n".join(hits))
    thms = lean_audit()
    # Props/C02.lean, Props/C02Scan.lean, ... all belong to C02
    mine = [t for t in thms if t["module"].rsplit(".", 1)[-1].startswith(prop_id)]
    bad = [t for t in mine if not set(t["axioms"]) <= ALLOWED_AXIOMS]
    if bad:
        raise MachineryBroken("theorems with unexpected axioms: %r" % bad)
    if not mine:
        raise MachineryBroken("no theorems found for %s" % prop_id)
    headline = [t["name"] for t in mine if re.search(r"(^|\.)" + prop_id + "_", t["name"])]
    axioms_used = sorted({a for t in mine for a in t["axioms"]})
    checker = "cd lean && lake build NostrRelay driver && lake env lean Audit.lean"
    extra = {}
    if tier == "thorough":
        mods = sorted({t["module"] for t in mine})
        t0 = time.time()
        rc, out = _run(["lake", "env", "leanchecker"] + mods, cwd=LEAN, timeout=3600)
        if rc != 0:
            raise MachineryBroken("leanchecker failed:\n" + out[-3000:])
        extra["leanchecker_s"] = round(time.time() - t0, 1)
        extra["leanchecker_modules"] = mods
        checker += " && lake env leanchecker " + " ".join(mods)
    return {
        "obligations": len(mine),
        "discharged": len(mine),
        "property_theorems": headline,
        "axioms_used": axioms_used,
        "checker_cmd": checker,
        "lean_build": info,
        **extra,
    }


class Driver:
    """The compiled Lean model behind a line protocol."""

    def __init__(self):
        if not os.path.exists(DRIVER_BIN):
            lean_build()
        self.p = subprocess.Popen([DRIVER_BIN], stdin=subprocess.PIPE, stdout=subprocess.PIPE, text=True,
                                  bufsize=1 << 20)
        self.lines = 0

    def call(self, obj):
        return self.batch([obj])[0]

    def batch(self, objs):
        if not objs:
            return []
        # write in a thread-free way: chunk to avoid pipe deadlock
        out = []
        CH = 200
        for i in range(0, len(objs), CH):
            chunk = objs[i:i + CH]
            data = "".join(json.dumps(o, separators=(",", ":")) + "\n" for o in chunk)
            self.p.stdin.write(data)
            self.p.stdin.flush()
            for _ in chunk:
                line = self.p.stdout.readline()
                if not line:
                    raise MachineryBroken("model driver died (stderr above)")
                out.append(json.loads(line))
        self.lines += len(objs)
        return out

    def close(self):
        try:
            self.p.stdin.close()
            self.p.wait(timeout=10)
        except Exception:
            self.p.kill()


# ----------------------------------------------------------------------------------------------
# known findings, verdicts, evidence
# ----------------------------------------------------------------------------------------------


def load_known_findings(prop_id):
    path = os.path.join(VERIF, "known_findings.json")
    if not os.path.exists(path):
        return []
    data = json.load(open(path))
    return [e for e in data.get("findings", []) if e.get("property") == prop_id]


def load_finding_replay(entry):
    return json.load(open(os.path.join(VERIF, entry["replay"])))


class Report:
    """Collects what a check run saw; decides exit status; writes evidence."""

    def __init__(self, prop_id, tier, seed):
        self.prop_id = prop_id
        self.tier = tier
        self.seed = seed
        self.t0 = time.time()
        self.coverage = {"evaluations": 0, "distinct_nontrivial": 0, "samples": []}
        self.assumptions = []
        self.violations = []  # dicts: {what, replay(obj), cls}
        self.known_hits = {}  # finding id -> count
        self.corr_breaks = []  # correspondence disagreements: {component, input, impl, model}
        self.known = load_known_findings(prop_id)
        self._distinct = set()

    # -- bookkeeping -------------------------------------------------------------------------
    def case(self, key, nontrivial=True, sample=None):
        self.coverage["evaluations"] += 1
        if nontrivial:
            k = hashlib.sha1(repr(key).encode()).hexdigest()
            if k not in self._distinct:
                self._distinct.add(k)
        if sample is not None and len(self.coverage["samples"]) < 6:
            self.coverage["samples"].append(sample)

    def count(self, name, n=1):
        d = self.coverage.setdefault("distribution", {})
        d[name] = d.get(name, 0) + n

    # -- outcomes ----------------------------------------------------------------------------
    def property_failure(self, what, replay, cls=None):
        """The property itself fails on the implementation at this input."""
        open_ids = {e["id"] for e in self.known if e.get("status") == "open"}
        if cls is not None and cls in open_ids:
            self.known_hits[cls] = self.known_hits.get(cls, 0) + 1
            return False
        if len(self.violations) < 20:
            self.violations.append({"what": what, "replay": replay, "class": cls})
        return True

    def correspondence_break(self, component, inp, impl, model):
        if len(self.corr_breaks) < 20:
            self.corr_breaks.append({"component": component, "input": inp, "impl": impl, "model": model})

    # -- finish ------------------------------------------------------------------------------
    def finish(self, proof_cov, theorems_tied=None):
        os.makedirs(REPLAYS, exist_ok=True)
        self.coverage["distinct_nontrivial"] = len(self._distinct)
        lines = []
        exit_code = 0
        for e in self.known:
            if e.get("status") == "open":
                n = self.known_hits.get(e["id"], 0)
                lines.append("KNOWN-FINDING: property=%s %s [%s; reproduced %d time(s) this run]"
                             % (self.prop_id, e["what_fails"], e["id"], n))
        if self.violations:
            exit_code = 1
            path = os.path.join(REPLAYS, "%s-violation.json" % self.prop_id)
            json.dump({"property": self.prop_id, "seed": self.seed, "tier": self.tier,
                       "violations": self.violations, "correspondence_breaks": self.corr_breaks},
                      open(path, "w"), indent=1, default=repr)
            lines.append("VIOLATION property=%s replay=%s" % (self.prop_id, path))
            lines.append("  first: %s" % self.violations[0]["what"])
        elif self.corr_breaks:
            exit_code = 1
            path = os.path.join(REPLAYS, "%s-correspondence.json" % self.prop_id)
            json.dump({"property": self.prop_id, "seed": self.seed, "tier": self.tier,
                       "no_longer_checks": {
                           "correspondence": sorted({b["component"] for b in self.corr_breaks}),
                           "theorems_no_longer_tied_to_the_code": theorems_tied or proof_cov.get("property_theorems", []),
                       },
                       "correspondence_breaks": self.corr_breaks},
                      open(path, "w"), indent=1, default=repr)
            lines.append("VIOLATION property=%s replay=%s no-failing-input-found" % (self.prop_id, path))
            lines.append("  model/implementation disagree in %s: %s" % (
                self.corr_breaks[0]["component"], json.dumps(self.corr_breaks[0]["input"], default=repr)[:300]))
        cov = dict(self.coverage)
        cov.update(proof_cov)
        cov.setdefault("rule", "see explanation")
        cov["trusted_base"] = TRUSTED_BASE + self.assumptions
        cov["known_findings_reproduced"] = self.known_hits
        cov["correspondence_disagreements"] = len(self.corr_breaks)
        try:
            from lib import cover
            mc = cover.report(self.prop_id, REPO)
            if mc is not None:
                cov["modelled_code"] = mc
        except Exception as e:      # the measurement must never change a verdict
            cov["modelled_code"] = {"error": repr(e)}
        ev = {
            "property_id": self.prop_id,
            "tier": self.tier,
            "seed": self.seed,
            "level": "proof",
            "coverage": cov,
            "assumptions": self.assumptions,
            "wall_s": round(time.time() - self.t0, 2),
            "violations": len(self.violations) + (1 if (self.corr_breaks and not self.violations) else 0),
        }
        os.makedirs(EVIDENCE, exist_ok=True)
        with open(os.path.join(EVIDENCE, "%s.json" % self.prop_id), "w") as fp:
            json.dump(ev, fp, indent=1, default=repr)
        for l in lines:
            print(l)
        print("%s %s tier=%s seed=%d theorems=%d cases=%d distinct=%d corr_breaks=%d wall=%.1fs"
              % ("FAIL" if exit_code else "PASS", self.prop_id, self.tier, self.seed, cov.get("obligations", 0),
                 cov["evaluations"], cov["distinct_nontrivial"], len(self.corr_breaks), ev["wall_s"]))
        return exit_code


TRUSTED_BASE = [
    "Lean 4.33 kernel; axioms limited to propext, Classical.choice, Quot.sound (audited per theorem)",
    "hand-written Lean model tied to /repo only by the differential correspondence run of this check",
    "harness: generators, adapters, canonicalisation, driver JSON decoding",
]
