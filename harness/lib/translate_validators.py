"""
Source-to-Lean translation of the *decision logic* of nostr_relay/validators.py (C16: "each validator decides exactly according to
its documented bound") — the second slice of /repo that is tied to the model by translation rather than by sampling (DESIGN.md §3.5).

On every run of the C16 check the eight policy validators

    is_not_too_large  is_recent  is_certain_kind  is_author_whitelisted  is_author_blacklisted  is_pow  is_not_hellthread
    is_service_event

are read out of the current source with `ast` (never executed) and translated statement by statement to Lean functions
`XV.<name> : Cfg → Int → Ev → Verdict` (namespace `XV`): `if <test>: raise StorageError(..)` becomes `if <test> then .reject else …`,
falling off the end is `.ok`, a local assignment is substituted, `x in config.<list option>` on an option that may be unset becomes a
`match` whose `none` arm is `.raises` (Python raises TypeError on `in None`, which refuses the event).  The atoms the validators look at
are mapped to the fields of the model's event / configuration records:

    len(event.content) → e.contentLen          event.kind / created_at / pubkey → e.kind / e.createdAt / e.pubkey
    time() → now                               int.from_bytes(event.id_bytes, "big").bit_length() → e.idBitLength
    len([t for t in event.tags if t[0] == "p"]) → e.pTags
    config.max_event_size / oldest_event / valid_kinds / pubkey_whitelist / pubkey_blacklist / require_pow / hellthread_limit /
    service_pubkey → the fields of `Cfg`

A generated file then states, for each validator, `∀ c now e, XV.<name> c now e = Admission.<name> c now e` — the hand-written model
decides exactly as the code does, for *every* configuration, clock value and event, not for the sampled ones — and Lean checks it.
A validator whose source has a shape outside this grammar is reported `unavailable` (never a verdict; the differential check still
covers it).  Not translated: `is_signed` (calls into aionostr's `Event.verify`; its decision logic over cryptographic facts is tied by
the correspondence check of C03) and `get_validator` (an async closure; tied by the pipeline cases).
"""
import ast
import os
import shutil
import subprocess
import tempfile


class Unavailable(Exception):
    pass


INT, BYTES = "Int", "Bytes"
EVENT_FIELDS = {"kind": ("e.kind", INT), "created_at": ("e.createdAt", INT), "pubkey": ("e.pubkey", BYTES)}
CONFIG_FIELDS = {"max_event_size": ("c.maxEventSize", INT), "oldest_event": ("c.oldestEvent", INT), "require_pow": ("c.requirePow", INT),
                 "hellthread_limit": ("c.hellthreadLimit", INT), "service_pubkey": ("c.servicePubkey", BYTES)}
CONFIG_LISTS = {"valid_kinds": ("c.validKinds", False), "pubkey_whitelist": ("c.whitelist", True), "pubkey_blacklist": ("c.blacklist", True)}
MODEL = {"is_not_too_large": ("isNotTooLarge", False), "is_recent": ("isRecent", True), "is_certain_kind": ("isCertainKind", False),
         "is_author_whitelisted": ("isAuthorWhitelisted", False), "is_author_blacklisted": ("isAuthorBlacklisted", False),
         "is_pow": ("isPow", False), "is_not_hellthread": ("isNotHellthread", False), "is_service_event": ("isServiceEvent", False)}


GLOBAL_SETS = {"ALLOWED_PUBKEYS": "allowed", "DENIED_PUBKEYS": "denied"}      # dynamic_lists' process-global sets
# (source file, function) -> (model function, binders of the generated function, arguments of the model function)
EXTRA = {("dynamic_lists.py", "is_pubkey_allowed"): ("isPubkeyAllowed", "(allowed denied : List (List Nat)) (e : Ev)", "allowed denied e")}


def _is(node, dump):
    return ast.dump(node) == ast.dump(ast.parse(dump, mode="eval").body)


class Fn:
    def __init__(self):
        self.env = {}
        self.guards = []       # (option field, bound variable) met while translating the current test

    # ---- integer / bytes valued expressions: returns (lean, type) ------------------------------------------------
    def expr(self, n):
        if isinstance(n, ast.Constant) and isinstance(n.value, int) and not isinstance(n.value, bool):
            return "(%d : Int)" % n.value, INT
        if isinstance(n, ast.UnaryOp) and isinstance(n.op, ast.USub):
            v, t = self.expr(n.operand)
            return "(-%s)" % v, t
        if isinstance(n, ast.BinOp) and isinstance(n.op, (ast.Sub, ast.Add)):
            a, ta = self.expr(n.left)
            b, tb = self.expr(n.right)
            if ta != INT or tb != INT:
                raise Unavailable("arithmetic on non-integers")
            return "(%s %s %s)" % (a, "-" if isinstance(n.op, ast.Sub) else "+", b), INT
        if isinstance(n, ast.Name):
            if n.id in self.env:
                return self.env[n.id]
            raise Unavailable("free name " + n.id)
        if isinstance(n, ast.Attribute) and isinstance(n.value, ast.Name):
            if n.value.id == "event" and n.attr in EVENT_FIELDS:
                return EVENT_FIELDS[n.attr]
            if n.value.id == "config" and n.attr in CONFIG_FIELDS:
                return CONFIG_FIELDS[n.attr]
            raise Unavailable("attribute %s.%s" % (n.value.id, n.attr))
        if isinstance(n, ast.Call):
            if _is(n, "time()"):
                return "now", INT
            if _is(n, "bytes.fromhex(event.pubkey)"):
                return "e.pubkey", BYTES
            if _is(n, "len(event.content)"):
                return "e.contentLen", INT
            if _is(n, 'int.from_bytes(event.id_bytes, "big").bit_length()'):
                return "e.idBitLength", INT
            if _is(n, 'len([t for t in event.tags if t[0] == "p"])'):
                return "e.pTags", INT
        raise Unavailable("expression " + ast.dump(n)[:80])

    # ---- tests: returns a Lean Bool -----------------------------------------------------------------------------------
    def test(self, n):
        if isinstance(n, ast.BoolOp):
            parts = [self.test(v) for v in n.values]
            return "(" + (" && " if isinstance(n.op, ast.And) else " || ").join(parts) + ")"
        if isinstance(n, ast.UnaryOp) and isinstance(n.op, ast.Not):
            return "(!%s)" % self.test(n.operand)
        if isinstance(n, ast.Compare) and len(n.ops) == 1:
            op, right = n.ops[0], n.comparators[0]
            if isinstance(op, (ast.In, ast.NotIn)):
                a, ta = self.expr(n.left)
                neg = isinstance(op, ast.NotIn)
                if isinstance(right, ast.Tuple) and all(isinstance(x, ast.Constant) and isinstance(x.value, int) for x in right.elts):
                    if ta != INT:
                        raise Unavailable("membership of a non-integer in a tuple of integers")
                    inner = "(" + " || ".join("(%s == (%d : Int))" % (a, x.value) for x in right.elts) + ")"
                elif isinstance(right, ast.Name) and right.id in GLOBAL_SETS:
                    inner = "(%s.contains %s)" % (GLOBAL_SETS[right.id], a)
                elif isinstance(right, ast.Attribute) and isinstance(right.value, ast.Name) and right.value.id == "config" \
                        and right.attr in CONFIG_LISTS:
                    field, optional = CONFIG_LISTS[right.attr]
                    if optional:
                        var = "l%d" % len(self.guards)
                        self.guards.append((field, var))
                        inner = "(%s.contains %s)" % (var, a)
                    else:
                        inner = "(%s.contains %s)" % (field, a)
                else:
                    raise Unavailable("membership in " + ast.dump(right)[:60])
                return "(!%s)" % inner if neg else inner
            a, ta = self.expr(n.left)
            b, tb = self.expr(right)
            if ta != tb:
                raise Unavailable("comparison of %s with %s" % (ta, tb))
            if isinstance(op, (ast.Gt, ast.Lt, ast.GtE, ast.LtE)):
                if ta != INT:
                    raise Unavailable("order on bytes")
                sym = {ast.Gt: ">", ast.Lt: "<", ast.GtE: "≥", ast.LtE: "≤"}[type(op)]
                return "decide (%s %s %s)" % (a, sym, b)
            if isinstance(op, ast.Eq):
                return "(%s == %s)" % (a, b)
            if isinstance(op, ast.NotEq):
                return "(%s != %s)" % (a, b)
        if isinstance(n, ast.Name) and n.id in GLOBAL_SETS:            # truthiness of a set: it is not empty
            return "(!%s.isEmpty)" % GLOBAL_SETS[n.id]
        # truthiness of an integer option (`config.hellthread_limit and …`)
        v, t = self.expr(n)
        if t == INT:
            return "(%s != (0 : Int))" % v
        raise Unavailable("truthiness of bytes")

    # ---- statements ------------------------------------------------------------------------------------------------------
    def block(self, stmts, rest):
        """Lean Verdict expression for `stmts` followed by `rest` (a Lean expression, or None = the block cannot fall through)"""
        if not stmts:
            return rest
        s, tail = stmts[0], stmts[1:]
        if isinstance(s, ast.Expr) and isinstance(s.value, ast.Constant) and isinstance(s.value.value, str):
            return self.block(tail, rest)                               # docstring
        if isinstance(s, ast.Raise):
            exc = s.exc
            if isinstance(exc, ast.Call) and isinstance(exc.func, ast.Name) and exc.func.id == "StorageError":
                return "Verdict.reject"
            raise Unavailable("raises something other than StorageError")
        if isinstance(s, ast.Assign) and len(s.targets) == 1 and isinstance(s.targets[0], ast.Name):
            self.env = dict(self.env)
            self.env[s.targets[0].id] = self.expr(s.value)
            return self.block(tail, rest)
        if isinstance(s, ast.If):
            after = self.block(tail, rest)
            self.guards = []
            t = self.test(s.test)
            guards = self.guards
            self.guards = []
            saved = self.env
            then = self.block(s.body, after)
            self.env = saved
            other = self.block(s.orelse, after) if s.orelse else after
            self.env = saved
            out = "(if %s then %s else %s)" % (t, then, other)
            for field, var in reversed(guards):
                out = "(match %s with | none => Verdict.raises | some %s => %s)" % (field, var, out)
            return out
        raise Unavailable("statement " + type(s).__name__)


def extract(repo):
    tree = ast.parse(open(os.path.join(repo, "nostr_relay", "validators.py")).read())
    funcs = {f.name: f for f in tree.body if isinstance(f, ast.FunctionDef)}
    defs, unavailable = {}, []
    for name, (mname, _) in MODEL.items():
        f = funcs.get(name)
        if f is None:
            unavailable.append((name, "the function is gone"))
            continue
        try:
            args = [a.arg for a in f.args.args]
            if args != ["event", "config"]:
                raise Unavailable("signature %r" % args)
            body = Fn().block(f.body, "Verdict.ok")
            defs[name] = "def %s (c : Cfg) (now : Int) (e : Ev) : Verdict := %s" % (mname, body)
        except Unavailable as ex:
            unavailable.append((name, str(ex)))
        except Exception as ex:
            unavailable.append((name, "%s: %s" % (type(ex).__name__, ex)))
    for (fname, name), (mname, binders, _) in EXTRA.items():
        try:
            t2 = ast.parse(open(os.path.join(repo, "nostr_relay", fname)).read())
            f = {x.name: x for x in t2.body if isinstance(x, ast.FunctionDef)}.get(name)
            if f is None:
                raise Unavailable("the function is gone")
            if [a.arg for a in f.args.args] != ["event", "config"]:
                raise Unavailable("signature")
            defs[name] = "def %s %s : Verdict := %s" % (mname, binders, Fn().block(f.body, "Verdict.ok"))
        except Unavailable as ex:
            unavailable.append((name, str(ex)))
        except Exception as ex:
            unavailable.append((name, "%s: %s" % (type(ex).__name__, ex)))
    # the shipped defaults of the options the validators read (config.py ConfigClass) vs the defaults of the model's Cfg
    try:
        t3 = ast.parse(open(os.path.join(repo, "nostr_relay", "config.py")).read())
        cc = [c for c in t3.body if isinstance(c, ast.ClassDef) and c.name == "ConfigClass"][0]
        vals = {st.targets[0].id: st.value.value for st in cc.body
                if isinstance(st, ast.Assign) and isinstance(st.targets[0], ast.Name) and isinstance(st.value, ast.Constant)}
        if not all(isinstance(vals.get(k), int) for k in ("max_event_size", "oldest_event")):
            raise Unavailable("max_event_size / oldest_event are not integer class attributes")
        defs["~config_defaults"] = "def configDefaults : Int × Int := (%d, %d)" % (vals["max_event_size"], vals["oldest_event"])
    except Unavailable as ex:
        unavailable.append(("ConfigClass defaults", str(ex)))
    except Exception as ex:
        unavailable.append(("ConfigClass defaults", "%s: %s" % (type(ex).__name__, ex)))
    return defs, unavailable


def lean_text(defs):
    lines = ["import NostrRelay.Model.Admission", "open NostrRelay NostrRelay.Admission", "set_option linter.unusedVariables false", "",
             "/-! generated from /repo/nostr_relay/validators.py by harness/lib/translate_validators.py — do not edit -/", "namespace XV"]
    lines += [defs[k] for k in sorted(defs)] + ["end XV", ""]
    thms = []
    extra = {n: v for (_, n), v in EXTRA.items()}
    for name in sorted(defs):
        if name == "~config_defaults":
            thms.append("tie_config_defaults")
            lines += ["theorem tie_config_defaults : XV.configDefaults = (({} : Cfg).maxEventSize, ({} : Cfg).oldestEvent) := by decide", ""]
            continue
        thms.append("tie_" + name)
        if name in extra:
            mname, binders, args = extra[name]
            lines += ["theorem tie_%s %s : XV.%s %s = NostrRelay.Admission.%s %s := by" % (name, binders, mname, args, mname, args),
                      "  unfold XV.%s NostrRelay.Admission.%s" % (mname, mname),
                      "  first | rfl | (repeat' split) <;> simp_all", ""]
            continue
        mname, takes_now = MODEL[name]
        rhs = "NostrRelay.Admission.%s c %se" % (mname, "now " if takes_now else "")
        lines += ["theorem tie_%s (c : Cfg) (now : Int) (e : Ev) : XV.%s c now e = %s := by" % (name, mname, rhs),
                  "  unfold XV.%s NostrRelay.Admission.%s" % (mname, mname),
                  "  first | rfl | (repeat' split) <;> simp_all <;> omega", ""]
    return "\n".join(lines), thms


def run(repo, lean_dir, keep=None):
    defs, unavailable = extract(repo)
    text, thms = lean_text(defs)
    d = tempfile.mkdtemp(prefix="tiev-")
    path = os.path.join(d, "TieValidators.lean")
    open(path, "w").write(text)
    if keep:
        open(keep, "w").write(text)
    try:
        p = subprocess.run(["lake", "env", "lean", path], cwd=lean_dir, stdout=subprocess.PIPE, stderr=subprocess.STDOUT, text=True,
                           timeout=900)
    finally:
        shutil.rmtree(d, ignore_errors=True)
    failed = []
    if p.returncode != 0 or ": error" in p.stdout:
        src = text.split("\n")
        starts = [(i + 1, l.split()[1]) for i, l in enumerate(src) if l.startswith(("theorem ", "def "))]
        for l in p.stdout.splitlines():
            if ": error" in l:
                try:
                    ln = int(l.split(":")[1])
                except Exception:
                    ln = 0
                owner = [n for s, n in starts if s <= ln]
                failed.append((owner[-1] if owner else "?", l.split("error", 1)[-1].strip(": ")[:200]))
        if not failed:
            failed.append(("?", p.stdout[-300:]))
    return {"status": "broken" if failed else ("partial" if unavailable else "checked"), "theorems": thms, "failed": failed,
            "failed_names": sorted({n for n, _ in failed}), "unavailable": unavailable, "definitions": defs}


# ---- rate_limiter.RateLimiter.parse_option: the table of interval names (C18) ----------------------------------------------------

def run_intervals(repo, lean_dir):
    """the `if interval in (...): interval = N / elif … / else: raise ValueError` chain of parse_option, translated to a Lean function on
    the lower-cased name, proved equal to the model's `parseInterval` for every string"""
    unavailable, failed, text = [], [], ""
    try:
        tree = ast.parse(open(os.path.join(repo, "nostr_relay", "rate_limiter.py")).read())
        fn = None
        for n in ast.walk(tree):
            if isinstance(n, ast.FunctionDef) and n.name == "parse_option":
                fn = n
        if fn is None:
            raise Unavailable("parse_option is gone")
        chain = None
        for n in ast.walk(fn):
            if isinstance(n, ast.If) and isinstance(n.test, ast.Compare) and isinstance(n.test.left, ast.Name) \
                    and n.test.left.id == "interval" and isinstance(n.test.ops[0], ast.In):
                chain = n
                break
        if chain is None:
            raise Unavailable("no `if interval in (...)` chain")
        lowered = any(isinstance(n, ast.Assign) and isinstance(n.value, ast.Call) and isinstance(n.value.func, ast.Attribute)
                      and n.value.func.attr == "lower" and isinstance(n.targets[0], ast.Name) and n.targets[0].id == "interval"
                      for n in ast.walk(fn))
        if not lowered:
            raise Unavailable("the interval name is not lower-cased before the comparison")
        arms = []
        node = chain
        while True:
            names = node.test.comparators[0]
            if not (isinstance(names, ast.Tuple) and all(isinstance(x, ast.Constant) and isinstance(x.value, str) for x in names.elts)):
                raise Unavailable("interval names are not a tuple of literals")
            if not (len(node.body) == 1 and isinstance(node.body[0], ast.Assign) and isinstance(node.body[0].value, ast.Constant)
                    and isinstance(node.body[0].value.value, int)):
                raise Unavailable("arm is not `interval = <int>`")
            arms.append(([x.value for x in names.elts], node.body[0].value.value))
            if len(node.orelse) == 1 and isinstance(node.orelse[0], ast.If):
                node = node.orelse[0]
                if not (isinstance(node.test, ast.Compare) and isinstance(node.test.ops[0], ast.In)):
                    raise Unavailable("elif shape")
                continue
            if not (len(node.orelse) == 1 and isinstance(node.orelse[0], ast.Raise)):
                raise Unavailable("the chain does not end in a raise")
            break
        body = ""
        for names, val in arms:
            cond = " ∨ ".join('l = "%s"' % x.replace('"', '\\"') for x in names)
            body += "if %s then some %d else " % (cond, val)
        body += "none"
        text = "\n".join(["import NostrRelay.Model.RateLimiter", "open NostrRelay",
                          "/-! generated from /repo/nostr_relay/rate_limiter.py (parse_option) — do not edit -/",
                          "def XR.parseInterval (l : String) : Option Int := " + body, "",
                          "theorem tie_parse_interval (s : String) : XR.parseInterval s.toLower = NostrRelay.RateLimiter.parseInterval s := by",
                          "  unfold XR.parseInterval NostrRelay.RateLimiter.parseInterval", "  rfl", ""])
    except Unavailable as ex:
        unavailable.append(("parse_option", str(ex)))
    except Exception as ex:
        unavailable.append(("parse_option", "%s: %s" % (type(ex).__name__, ex)))
    if text:
        d = tempfile.mkdtemp(prefix="tier-")
        path = os.path.join(d, "TieIntervals.lean")
        open(path, "w").write(text)
        try:
            p = subprocess.run(["lake", "env", "lean", path], cwd=lean_dir, stdout=subprocess.PIPE, stderr=subprocess.STDOUT, text=True,
                               timeout=600)
        finally:
            shutil.rmtree(d, ignore_errors=True)
        if p.returncode != 0 or ": error" in p.stdout:
            failed.append(("tie_parse_interval", p.stdout.strip()[-300:]))
    return {"status": "broken" if failed else ("partial" if unavailable else "checked"), "theorems": ["tie_parse_interval"] if text else [],
            "failed": failed, "failed_names": sorted({n for n, _ in failed}), "unavailable": unavailable, "definitions": {"parseInterval": text}}


if __name__ == "__main__":
    import json
    import sys
    repo = sys.argv[1] if len(sys.argv) > 1 else "/repo"
    here = os.path.dirname(os.path.dirname(os.path.dirname(os.path.abspath(__file__))))
    r = run(repo, os.environ.get("VERIF_LEAN") or os.path.join(here, "lean"), keep=sys.argv[2] if len(sys.argv) > 2 else None)
    print(json.dumps(r, indent=1))
    print(json.dumps(run_intervals(repo, os.environ.get("VERIF_LEAN") or os.path.join(here, "lean")), indent=1))


# ---- auth.Authenticator.check_auth_event (C15): straight-line tests + the loop over the tags --------------------------------------

BOOL, STR = "Bool", "String"


class AuthFn:
    """statement translator for check_auth_event.  Verdict-valued outside the loop; inside the loop the result type is
    Option (Option (Bool × Bool)): none = IndexError (a tag too short), some none = AuthenticationError, some (some flags) = fell through"""

    def __init__(self):
        self.env = {}
        self.guards = []
        self.in_loop = False
        self.loop_def = None

    def expr(self, n):
        if isinstance(n, ast.Constant):
            if isinstance(n.value, bool):
                return ("true" if n.value else "false"), BOOL
            if isinstance(n.value, int):
                return "(%d : Int)" % n.value, INT
            if isinstance(n.value, str):
                return '"%s"' % n.value.replace("\\", "\\\\").replace('"', '\\"'), STR
        if isinstance(n, ast.UnaryOp) and isinstance(n.op, ast.USub):
            v, t = self.expr(n.operand)
            return "(-%s)" % v, t
        if isinstance(n, ast.BinOp) and isinstance(n.op, (ast.Sub, ast.Add)):
            a, ta = self.expr(n.left)
            b, tb = self.expr(n.right)
            if ta != INT or tb != INT:
                raise Unavailable("arithmetic on non-integers")
            return "(%s %s %s)" % (a, "-" if isinstance(n.op, ast.Sub) else "+", b), INT
        if isinstance(n, ast.Name):
            if n.id in self.env:
                return self.env[n.id]
            if n.id == "challenge":
                return "challenge", STR
            raise Unavailable("free name " + n.id)
        if isinstance(n, ast.Attribute) and isinstance(n.value, ast.Name) and n.value.id == "auth_event":
            if n.attr == "kind":
                return "kind", INT
            if n.attr == "created_at":
                return "createdAt", INT
        if isinstance(n, ast.Call) and _is(n, "time()"):
            return "now", INT
        if isinstance(n, ast.Call) and _is(n, "auth_event.verify()"):
            if "verify()" not in self.env:
                self.guards.append(("verifies", "vfy", "Verdict.raises"))
                self.env = dict(self.env)
                self.env["verify()"] = ("vfy", BOOL)
            return self.env["verify()"]
        if isinstance(n, ast.Subscript) and isinstance(n.value, ast.Name) and isinstance(n.slice, ast.Constant) \
                and isinstance(n.slice.value, int) and n.slice.value >= 0 and (n.value.id, "loopvar") in self.env:
            key = "%s[%d]" % (n.value.id, n.slice.value)
            if key not in self.env:
                var = "%s%d" % (n.value.id, n.slice.value)
                self.guards.append(("%s[%d]?" % (n.value.id, n.slice.value), var, "none"))
                self.env = dict(self.env)
                self.env[key] = (var, STR)
            return self.env[key]
        raise Unavailable("expression " + ast.dump(n)[:80])

    def test(self, n):
        if isinstance(n, ast.BoolOp):
            return "(" + (" && " if isinstance(n.op, ast.And) else " || ").join(self.test(v) for v in n.values) + ")"
        if isinstance(n, ast.UnaryOp) and isinstance(n.op, ast.Not):
            return "(!%s)" % self.test(n.operand)
        if isinstance(n, ast.Compare) and len(n.ops) == 1:
            op, right = n.ops[0], n.comparators[0]
            if isinstance(op, (ast.In, ast.NotIn)):
                a, ta = self.expr(n.left)
                if not (isinstance(right, ast.Attribute) and isinstance(right.value, ast.Name) and right.value.id == "self"
                        and right.attr == "valid_urls" and ta == STR):
                    raise Unavailable("membership in " + ast.dump(right)[:60])
                inner = "(validUrls.contains %s)" % a
                return "(!%s)" % inner if isinstance(op, ast.NotIn) else inner
            a, ta = self.expr(n.left)
            b, tb = self.expr(right)
            if ta != tb:
                raise Unavailable("comparison of %s with %s" % (ta, tb))
            if isinstance(op, (ast.Gt, ast.Lt, ast.GtE, ast.LtE)):
                if ta != INT:
                    raise Unavailable("order on non-integers")
                return "decide (%s %s %s)" % (a, {ast.Gt: ">", ast.Lt: "<", ast.GtE: "≥", ast.LtE: "≤"}[type(op)], b)
            if isinstance(op, ast.Eq):
                return "(%s == %s)" % (a, b)
            if isinstance(op, ast.NotEq):
                return "(%s != %s)" % (a, b)
        v, t = self.expr(n)
        if t == BOOL:
            return v
        raise Unavailable("truthiness of " + t)

    def block(self, stmts, k):
        if not stmts:
            return k(self.env)
        s, tail = stmts[0], stmts[1:]
        if isinstance(s, ast.Expr) and isinstance(s.value, ast.Constant) and isinstance(s.value.value, str):
            return self.block(tail, k)
        if isinstance(s, ast.Raise):
            if isinstance(s.exc, ast.Call) and isinstance(s.exc.func, ast.Name) and s.exc.func.id == "AuthenticationError":
                return "some none" if self.in_loop else "Verdict.reject"
            raise Unavailable("raises something other than AuthenticationError")
        if isinstance(s, ast.Assign) and len(s.targets) == 1:
            tg = s.targets[0]
            # `a = b = False` is two targets in ast: handle the chained form
            names = [t.id for t in s.targets if isinstance(t, ast.Name)]
            if len(names) != len(s.targets):
                raise Unavailable("assignment target")
            v = self.expr(s.value)
            self.env = dict(self.env)
            for nm in names:
                self.env[nm] = v
            return self.block(tail, k)
        if isinstance(s, ast.Assign):
            names = [t.id for t in s.targets if isinstance(t, ast.Name)]
            if len(names) != len(s.targets):
                raise Unavailable("assignment target")
            v = self.expr(s.value)
            self.env = dict(self.env)
            for nm in names:
                self.env[nm] = v
            return self.block(tail, k)
        if isinstance(s, ast.If):
            saved_guards = self.guards
            self.guards = []
            t = self.test(s.test)
            guards, self.guards = self.guards, saved_guards
            env_t = self.env
            then = self.block(list(s.body) + list(tail), k)
            self.env = env_t
            other = self.block(list(s.orelse) + list(tail), k)
            self.env = env_t
            out = "(if %s then %s else %s)" % (t, then, other)
            for scrut, var, on_none in reversed(guards):
                out = "(match %s with | none => %s | some %s => %s)" % (scrut, on_none, var, out)
            return out
        if isinstance(s, ast.For) and isinstance(s.target, ast.Name) and not s.orelse and not self.in_loop:
            if not (isinstance(s.iter, ast.Attribute) and isinstance(s.iter.value, ast.Name) and s.iter.value.id == "auth_event"
                    and s.iter.attr == "tags"):
                raise Unavailable("loop over something other than auth_event.tags")
            assigned = {t.id for x in ast.walk(s) if isinstance(x, ast.Assign) for t in x.targets if isinstance(t, ast.Name)}
            state = [v for v in self.env if isinstance(v, str) and v in assigned]        # in the order they were initialised
            for v in assigned:
                if v not in self.env or self.env[v][1] != BOOL:
                    raise Unavailable("loop variable %s is not a flag initialised before the loop" % v)
            if len(state) != 2:
                raise Unavailable("the loop carries %d flags, the model two" % len(state))
            inner = AuthFn()
            inner.in_loop = True
            inner.env = {v: (v, BOOL) for v in state}
            inner.env[(s.target.id, "loopvar")] = True
            tagvar = s.target.id
            body = inner.block(list(s.body), lambda env: "loop validUrls challenge rest %s" % " ".join(env[v][0] for v in state))
            self.loop_def = ("def loop (validUrls : List String) (challenge : String) : List (List String) → Bool → Bool → "
                             "Option (Option (Bool × Bool))\n  | [], %s => some (some (%s))\n  | %s :: rest, %s => %s"
                             % (", ".join(state), ", ".join(state), tagvar, ", ".join(state), body))
            init = " ".join(self.env[v][0] for v in state)
            self.env = dict(self.env)
            for i, v in enumerate(state):
                self.env[v] = ("fl%d" % i, BOOL)
            after = self.block(list(tail), k)
            return ("(match loop validUrls challenge tags %s with | none => Verdict.raises | some none => Verdict.reject "
                    "| some (some (fl0, fl1)) => %s)" % (init, after))
        raise Unavailable("statement " + type(s).__name__)


def run_auth(repo, lean_dir, keep=None):
    """check_auth_event translated and proved equal to the model's `authenticate` (for a dict-shaped event) for every clock value, event
    and configuration; the abstraction of a concrete tag to the model's AuthTag is the one harness/props/c15.py applies (model_facts)"""
    unavailable, failed, text, thms = [], [], "", []
    try:
        tree = ast.parse(open(os.path.join(repo, "nostr_relay", "auth.py")).read())
        fn = None
        for n in ast.walk(tree):
            if isinstance(n, ast.FunctionDef) and n.name == "check_auth_event":
                fn = n
        if fn is None:
            raise Unavailable("check_auth_event is gone")
        if [a.arg for a in fn.args.args] != ["self", "auth_event", "challenge"]:
            raise Unavailable("signature")
        f = AuthFn()
        res = f.block(list(fn.body), lambda env: "Verdict.ok")
        if f.loop_def is None:
            raise Unavailable("no loop over the tags")
        # the for statement returns (text, state) from inside nested calls: flatten
        text = "\n".join([
            "import NostrRelay.Model.Admission", "open NostrRelay NostrRelay.Admission", "set_option linter.unusedVariables false",
            "set_option linter.unusedSimpArgs false",
            "/-! generated from /repo/nostr_relay/auth.py (Authenticator.check_auth_event) — do not edit -/", "namespace XA",
            "/-- the abstraction of a concrete tag that harness/props/c15.py applies (model_facts) -/",
            "def absTag (validUrls : List String) (challenge : String) : List String → AuthTag",
            "  | [] => .short",
            "  | [n] => if n == \"relay\" || n == \"challenge\" then .short else .other",
            "  | n :: v :: _ => if n == \"relay\" then .relay (validUrls.contains v) else if n == \"challenge\" then .challenge (v == challenge) else .other",
            f.loop_def,
            "def checkAuthEvent (validUrls : List String) (challenge : String) (now : Int) (verifies : Option Bool) (kind createdAt : Int)",
            "    (tags : List (List String)) : Verdict := " + res,
            "end XA", "",
            "theorem tie_auth_loop (vu : List String) (ch : String) (tags : List (List String)) (r c : Bool) :",
            "    XA.loop vu ch tags r c = scanAuthTags (tags.map (XA.absTag vu ch)) r c := by",
            "  induction tags generalizing r c with",
            "  | nil => simp [XA.loop, scanAuthTags]",
            "  | cons t rest ih =>",
            "    match t with",
            "    | [] => simp [XA.loop, XA.absTag, scanAuthTags]",
            "    | [n] =>",
            "      by_cases h1 : n = \"relay\"",
            "      · subst h1; simp [XA.loop, XA.absTag, scanAuthTags]",
            "      · by_cases h2 : n = \"challenge\"",
            "        · subst h2; simp [XA.loop, XA.absTag, scanAuthTags]",
            "        · simp [XA.loop, XA.absTag, scanAuthTags, h1, h2, ih]",
            "    | n :: v :: more =>",
            "      by_cases h1 : n = \"relay\"",
            "      · subst h1",
            "        by_cases h3 : v ∈ vu <;> simp [XA.loop, XA.absTag, scanAuthTags, h3, ih]",
            "      · by_cases h2 : n = \"challenge\"",
            "        · subst h2",
            "          by_cases h4 : v = ch",
            "          · subst h4; simp [XA.loop, XA.absTag, scanAuthTags, ih]",
            "          · have h5 : (v == ch) = false := by simpa using h4",
            "            simp [XA.loop, XA.absTag, scanAuthTags, h4, h5, ih]",
            "        · simp [XA.loop, XA.absTag, scanAuthTags, h1, h2, ih]", "",
            "theorem tie_check_auth_event (vu : List String) (ch : String) (now : Int) (v : Option Bool) (k ca : Int) (tags : List (List String)) :",
            "    XA.checkAuthEvent vu ch now v k ca tags = authenticate now ⟨true, v, k, ca, tags.map (XA.absTag vu ch)⟩ := by",
            "  unfold XA.checkAuthEvent authenticate",
            "  rw [tie_auth_loop]",
            "  cases v with",
            "  | none => simp",
            "  | some b =>",
            "    cases b <;> simp",
            "    repeat' split",
            "    all_goals (first | rfl | omega | simp_all)", ""])
        thms = ["tie_auth_loop", "tie_check_auth_event"]
    except Unavailable as ex:
        unavailable.append(("check_auth_event", str(ex)))
    except Exception as ex:
        unavailable.append(("check_auth_event", "%s: %s" % (type(ex).__name__, ex)))
    if text:
        if keep:
            open(keep, "w").write(text)
        d = tempfile.mkdtemp(prefix="tiea-")
        path = os.path.join(d, "TieAuth.lean")
        open(path, "w").write(text)
        try:
            p = subprocess.run(["lake", "env", "lean", path], cwd=lean_dir, stdout=subprocess.PIPE, stderr=subprocess.STDOUT, text=True,
                               timeout=600)
        finally:
            shutil.rmtree(d, ignore_errors=True)
        if p.returncode != 0 or ": error" in p.stdout:
            src = text.split("\n")
            starts = [(i + 1, l.split()[1]) for i, l in enumerate(src) if l.startswith(("theorem ", "def "))]
            for l in p.stdout.splitlines():
                if ": error" in l:
                    try:
                        ln = int(l.split(":")[1])
                    except Exception:
                        ln = 0
                    owner = [n for s0, n in starts if s0 <= ln]
                    failed.append((owner[-1] if owner else "?", l.split("error", 1)[-1].strip(": ")[:200]))
            if not failed:
                failed.append(("?", p.stdout[-300:]))
    return {"status": "broken" if failed else ("partial" if unavailable else "checked"), "theorems": thms, "failed": failed,
            "failed_names": sorted({n for n, _ in failed}), "unavailable": unavailable, "definitions": {"check_auth_event": text}}


# ---- storage/base.py BaseSubscription.check_event (C05): the live matcher ----------------------------------------------------------

def run_live(repo, lean_dir, keep=None):
    """check_event translated clause by clause (the `matched` set becomes the list of the booleans added to it, in statement order —
    only its emptiness and `all()` are ever looked at) and proved equal to the model's `liveMatch` for every filter list and event.
    Atoms: `event.has_tag("delegation", query.authors)[1]` is the model's `delegationHit`, `event.has_tag(name, values)[1] is not None`
    its `hasTagMatch` (aionostr's Event.has_tag is outside /repo; the harness ties those two atoms by the differential check)."""
    unavailable, failed, text, thms = [], [], "", []
    FIELD = {"ids": ("f.ids", "e.id"), "authors": ("f.authors", "e.pubkey"), "kinds": ("f.kinds", "e.kind")}

    def is_attr(n, base, attr=None):
        return isinstance(n, ast.Attribute) and isinstance(n.value, ast.Name) and n.value.id == base and (attr is None or n.attr == attr)

    def added(call):
        """the argument of `matched.add(<arg>)`"""
        if isinstance(call, ast.Expr):
            call = call.value
        if isinstance(call, ast.Call) and isinstance(call.func, ast.Attribute) and call.func.attr == "add" \
                and isinstance(call.func.value, ast.Name) and call.func.value.id == "matched" and len(call.args) == 1:
            return call.args[0]
        raise Unavailable("not a matched.add(...)")

    def member(n, var):
        """`event.X in query.F` -> l.contains e.X"""
        if isinstance(n, ast.Compare) and len(n.ops) == 1 and isinstance(n.ops[0], (ast.In, ast.NotIn)) and is_attr(n.left, "event") \
                and is_attr(n.comparators[0], "query"):
            fld = n.comparators[0].attr
            if fld in FIELD and n.left.attr == {"ids": "id", "authors": "pubkey", "kinds": "kind"}[fld]:
                inner = "(%s.contains %s)" % (var, FIELD[fld][1])
                return fld, ("(!%s)" % inner if isinstance(n.ops[0], ast.NotIn) else inner)
        raise Unavailable("membership shape")

    def timecmp(n, var):
        if isinstance(n, ast.Compare) and len(n.ops) == 1 and is_attr(n.left, "event", "created_at") and is_attr(n.comparators[0], "query"):
            sym = {ast.Gt: ">", ast.Lt: "<", ast.GtE: "≥", ast.LtE: "≤", ast.Eq: "=", ast.NotEq: "≠"}.get(type(n.ops[0]))
            if sym:
                return n.comparators[0].attr, "decide (e.createdAt %s %s)" % (sym, var)
        raise Unavailable("time comparison shape")

    try:
        tree = ast.parse(open(os.path.join(repo, "nostr_relay", "storage", "base.py")).read())
        fn = None
        for n in ast.walk(tree):
            if isinstance(n, ast.FunctionDef) and n.name == "check_event":
                fn = n
        if fn is None:
            raise Unavailable("check_event is gone")
        body = [s for s in fn.body if not (isinstance(s, ast.Expr) and isinstance(s.value, ast.Constant))]
        if not (len(body) == 2 and isinstance(body[0], ast.For) and isinstance(body[1], ast.Return)
                and isinstance(body[1].value, ast.Constant) and body[1].value.value is False):
            raise Unavailable("not `for query in filters: … ; return False`")
        loop = body[0]
        if not (isinstance(loop.target, ast.Name) and loop.target.id == "query" and isinstance(loop.iter, ast.Name) and loop.iter.id == "filters"):
            raise Unavailable("outer loop")
        stmts = list(loop.body)
        if not (isinstance(stmts[0], ast.Assign) and _is(stmts[0].value, "set()") and stmts[0].targets[0].id == "matched"):
            raise Unavailable("matched = set()")
        clauses = []
        for st in stmts[1:-1]:
            if not isinstance(st, ast.If) or st.orelse:
                raise Unavailable("clause is not a plain if")
            t = st.test
            # `if query.tags:` -> the loop over the tag conditions
            if is_attr(t, "query", "tags"):
                if not (len(st.body) == 1 and isinstance(st.body[0], ast.For)):
                    raise Unavailable("tags clause")
                lp = st.body[0]
                arg = added(lp.body[0]) if len(lp.body) == 1 else None
                ok = (arg is not None and isinstance(lp.target, ast.Tuple) and [x.id for x in lp.target.elts] == ["tagname", "values"]
                      and isinstance(arg, ast.Compare) and isinstance(arg.ops[0], (ast.IsNot, ast.Is))
                      and _is(arg.left, "event.has_tag(tagname, values)[1]") and isinstance(arg.comparators[0], ast.Constant)
                      and arg.comparators[0].value is None)
                if not ok:
                    raise Unavailable("tag condition shape")
                inner = "hasTagMatch e t.1 t.2"
                clauses.append("(f.tags.map fun t => %s)" % (inner if isinstance(arg.ops[0], ast.IsNot) else "!(%s)" % inner))
                continue
            if not (isinstance(t, ast.Compare) and isinstance(t.ops[0], ast.IsNot) and is_attr(t.left, "query")
                    and isinstance(t.comparators[0], ast.Constant) and t.comparators[0].value is None):
                raise Unavailable("clause guard is not `query.X is not None`")
            fld = t.left.attr
            if fld in ("since", "until"):
                if len(st.body) != 1:
                    raise Unavailable("time clause body")
                f2, cmp_ = timecmp(added(st.body[0]), "x")
                if f2 != fld:
                    raise Unavailable("time clause compares with another field")
                clauses.append("(match f.%s with | some x => [%s] | none => [])" % ("until_" if fld == "until" else "since", cmp_))
                continue
            if fld not in FIELD:
                raise Unavailable("unknown filter field " + fld)
            f2, first = member(added(st.body[0]), "l")
            if f2 != fld:
                raise Unavailable("clause tests another field")
            extra = ""
            rest = st.body[1:]
            if rest:
                # has_delegation, match = event.has_tag("delegation", query.authors); if match: matched.add(True)
                ok = (fld == "authors" and len(rest) == 2 and isinstance(rest[0], ast.Assign) and isinstance(rest[0].targets[0], ast.Tuple)
                      and _is(rest[0].value, 'event.has_tag("delegation", query.authors)') and isinstance(rest[1], ast.If)
                      and isinstance(rest[1].test, ast.Name) and rest[1].test.id == rest[0].targets[0].elts[1].id
                      and len(rest[1].body) == 1 and not rest[1].orelse)
                if not ok:
                    raise Unavailable("extra statements in the %s clause" % fld)
                arg = added(rest[1].body[0])
                if not (isinstance(arg, ast.Constant) and isinstance(arg.value, bool)):
                    raise Unavailable("delegation adds a non-constant")
                extra = " ++ (if delegationHit e l then [%s] else [])" % ("true" if arg.value else "false")
            clauses.append("(match %s with | some l => [%s]%s | none => [])" % (FIELD[fld][0], first, extra))
        last = stmts[-1]
        if not (isinstance(last, ast.If) and len(last.body) == 1 and isinstance(last.body[0], ast.Return)
                and isinstance(last.body[0].value, ast.Constant) and last.body[0].value.value is True and not last.orelse):
            raise Unavailable("final `if …: return True`")

        def final(n):
            if isinstance(n, ast.BoolOp):
                return "(" + (" && " if isinstance(n.op, ast.And) else " || ").join(final(v) for v in n.values) + ")"
            if isinstance(n, ast.Name) and n.id == "matched":
                return "(!(conds f e).isEmpty)"
            if _is(n, "all(matched)"):
                return "((conds f e).all id)"
            if _is(n, "any(matched)"):
                return "((conds f e).any id)"
            if isinstance(n, ast.UnaryOp) and isinstance(n.op, ast.Not):
                return "(!%s)" % final(n.operand)
            raise Unavailable("final test " + ast.dump(n)[:60])
        fin = final(last.test)
        text = "\n".join([
            "import NostrRelay.Model.Live", "open NostrRelay NostrRelay.KV", "set_option linter.unusedVariables false", "set_option linter.unusedSimpArgs false",
            "/-! generated from /repo/nostr_relay/storage/base.py (BaseSubscription.check_event) — do not edit -/", "namespace XL",
            "def conds (f : Filter) (e : Event) : List Bool := " + ("\n  ++ ".join(clauses) if clauses else "[]"),
            "def matchOne (f : Filter) (e : Event) : Bool := " + fin,
            "def liveMatch (fs : List Filter) (e : Event) : Bool := fs.any fun f => matchOne f e", "end XL", "",
            "theorem tie_check_event_one (f : Filter) (e : Event) : XL.matchOne f e = liveMatchOne f e := by",
            "  unfold XL.matchOne liveMatchOne XL.conds liveConds",
            "  cases f.ids <;> cases f.authors <;> cases f.kinds <;> cases f.since <;> cases f.until_ <;>",
            "    simp <;> (try (split <;> simp)) <;> (try (constructor <;> intro h <;> simp_all)) <;> (try ac_rfl)", "",
            "theorem tie_check_event (fs : List Filter) (e : Event) : XL.liveMatch fs e = NostrRelay.KV.liveMatch fs e := by",
            "  unfold XL.liveMatch NostrRelay.KV.liveMatch",
            "  simp only [tie_check_event_one]", ""])
        thms = ["tie_check_event_one", "tie_check_event"]
    except Unavailable as ex:
        unavailable.append(("check_event", str(ex)))
    except Exception as ex:
        unavailable.append(("check_event", "%s: %s" % (type(ex).__name__, ex)))
    if text:
        if keep:
            open(keep, "w").write(text)
        d = tempfile.mkdtemp(prefix="tiel-")
        path = os.path.join(d, "TieLive.lean")
        open(path, "w").write(text)
        try:
            p = subprocess.run(["lake", "env", "lean", path], cwd=lean_dir, stdout=subprocess.PIPE, stderr=subprocess.STDOUT, text=True,
                               timeout=600)
        finally:
            shutil.rmtree(d, ignore_errors=True)
        if p.returncode != 0 or ": error" in p.stdout:
            src = text.split("\n")
            starts = [(i + 1, l.split()[1]) for i, l in enumerate(src) if l.startswith(("theorem ", "def "))]
            for l in p.stdout.splitlines():
                if ": error" in l:
                    try:
                        ln = int(l.split(":")[1])
                    except Exception:
                        ln = 0
                    owner = [n for s0, n in starts if s0 <= ln]
                    failed.append((owner[-1] if owner else "?", l.split("error", 1)[-1].strip(": ")[:200]))
            if not failed:
                failed.append(("?", p.stdout[-300:]))
    return {"status": "broken" if failed else ("partial" if unavailable else "checked"), "theorems": thms, "failed": failed,
            "failed_names": sorted({n for n, _ in failed}), "unavailable": unavailable, "definitions": {"check_event": text}}


# ---- auth.Authenticator.can_do (C14): the role decision ----------------------------------------------------------------------------

def run_can_do(repo, lean_dir):
    """can_do translated to a Lean function of (enabled, the roles configured for the action or none, the token's effective roles) and
    proved equal to the model's `canDo`.  `bool(A.intersection(B))` is `A.any B.contains`; the `target` branch (evaluate_target, only
    reached with a target object) is outside the translated fragment — the relay's call sites pass a target only for the shipped no-op."""
    unavailable, failed, text = [], [], ""
    try:
        tree = ast.parse(open(os.path.join(repo, "nostr_relay", "auth.py")).read())
        fn = None
        for n in ast.walk(tree):
            if isinstance(n, ast.AsyncFunctionDef) and n.name == "can_do":
                fn = n
        if fn is None:
            raise Unavailable("can_do is gone")
        body = [s for s in fn.body if not (isinstance(s, ast.Expr) and isinstance(s.value, ast.Constant))]
        if not (len(body) == 3 and isinstance(body[0], ast.Assign) and isinstance(body[0].value, ast.Constant)
                and isinstance(body[0].value.value, bool) and isinstance(body[2], ast.Return) and isinstance(body[2].value, ast.Name)
                and body[2].value.id == body[0].targets[0].id and isinstance(body[1], ast.If)):
            raise Unavailable("not `r = <bool>; if …; return r`")
        var, init = body[0].targets[0].id, body[0].value.value

        def cond(t):
            neg = False
            if isinstance(t, ast.UnaryOp) and isinstance(t.op, ast.Not):
                neg, t = True, t.operand
            if isinstance(t, ast.Attribute) and isinstance(t.value, ast.Name) and t.value.id == "self" and t.attr == "is_enabled":
                return "enabled", neg
            if isinstance(t, ast.Compare) and isinstance(t.ops[0], (ast.In, ast.NotIn)) and isinstance(t.left, ast.Name) and t.left.id == "action" \
                    and isinstance(t.comparators[0], ast.Attribute) and t.comparators[0].attr == "actions":
                return "configured", neg != isinstance(t.ops[0], ast.NotIn)
            raise Unavailable("condition " + ast.dump(t)[:60])

        def value(e):
            """the expression assigned to the result"""
            neg = False
            if isinstance(e, ast.UnaryOp) and isinstance(e.op, ast.Not):
                neg, e = True, e.operand
            if isinstance(e, ast.Constant) and isinstance(e.value, bool):
                return ("true" if e.value != neg else "false")
            if isinstance(e, ast.Call) and isinstance(e.func, ast.Name) and e.func.id == "bool" and len(e.args) == 1:
                e = e.args[0]
            if isinstance(e, ast.Call) and isinstance(e.func, ast.Attribute) and e.func.attr in ("intersection", "isdisjoint") \
                    and _is(e.func.value, "self.actions[action]") and _is(e.args[0], 'auth_token.get("roles", self.default_roles)'):
                inner = "(rs.any tokenRoles.contains)"
                if e.func.attr == "isdisjoint":
                    neg = not neg
                return "(!%s)" % inner if neg else inner
            raise Unavailable("assigned value " + ast.dump(e)[:80])

        def block(stmts, cur, in_configured):
            """Lean Bool for the result variable after `stmts`, `cur` = its value before"""
            for st in stmts:
                if isinstance(st, ast.Assign) and isinstance(st.targets[0], ast.Name) and st.targets[0].id == "auth_token":
                    continue                                    # `auth_token = auth_token or {}`: the token's roles default (an atom of the model)
                if isinstance(st, ast.Assign) and isinstance(st.targets[0], ast.Name) and st.targets[0].id == var:
                    if not in_configured and "rs" in value(st.value):
                        raise Unavailable("role test outside the `action in self.actions` branch")
                    cur = value(st.value)
                    continue
                if isinstance(st, ast.If):
                    # `if can_do and target:` — only with a target object
                    if isinstance(st.test, ast.BoolOp) and any(isinstance(v, ast.Name) and v.id == "target" for v in st.test.values):
                        continue
                    what, neg = cond(st.test)
                    then = block(st.body, cur, in_configured or (what == "configured" and not neg))
                    other = block(st.orelse, cur, in_configured or (what == "configured" and neg))
                    if what == "enabled":
                        cur = "(if %senabled then %s else %s)" % ("!" if neg else "", then, other)
                    else:
                        a, b = (other, then) if neg else (then, other)
                        cur = "(match actionRoles with | some rs => %s | none => %s)" % (a, b.replace("rs.any", "([] : List Char).any"))
                    continue
                raise Unavailable("statement " + type(st).__name__)
            return cur
        res = block([body[1]], "true" if init else "false", False)
        text = "\n".join(["import NostrRelay.Model.Admission", "open NostrRelay NostrRelay.Admission", "set_option linter.unusedVariables false",
                          "/-! generated from /repo/nostr_relay/auth.py (Authenticator.can_do) — do not edit -/",
                          "def XC.canDo (enabled : Bool) (actionRoles : Option (List Char)) (tokenRoles : List Char) : Bool := " + res, "",
                          "theorem tie_can_do (enabled : Bool) (actionRoles : Option (List Char)) (tokenRoles : List Char) :",
                          "    XC.canDo enabled actionRoles tokenRoles = canDo enabled actionRoles tokenRoles := by",
                          "  unfold XC.canDo canDo", "  cases enabled <;> cases actionRoles <;> simp", ""])
    except Unavailable as ex:
        unavailable.append(("can_do", str(ex)))
    except Exception as ex:
        unavailable.append(("can_do", "%s: %s" % (type(ex).__name__, ex)))
    if text:
        d = tempfile.mkdtemp(prefix="tiec-")
        path = os.path.join(d, "TieCanDo.lean")
        open(path, "w").write(text)
        try:
            p = subprocess.run(["lake", "env", "lean", path], cwd=lean_dir, stdout=subprocess.PIPE, stderr=subprocess.STDOUT, text=True,
                               timeout=600)
        finally:
            shutil.rmtree(d, ignore_errors=True)
        if p.returncode != 0 or ": error" in p.stdout:
            failed.append(("tie_can_do", p.stdout.strip()[-300:]))
    return {"status": "broken" if failed else ("partial" if unavailable else "checked"), "theorems": ["tie_can_do"] if text else [],
            "failed": failed, "failed_names": sorted({n for n, _ in failed}), "unavailable": unavailable, "definitions": {"can_do": text}}
