"""
Scenario runner for the query properties (C01, C02, C11, C12): stores × filters on both backends.
Produces answer records that carry the implementation's answer, the effective limit, and the NIP-01
reference answers (strict / inclusive reading), computed by the Lean specification for in-model inputs
(and cross-checked with the Python reference), by the Python reference otherwise.
"""
import random

from lib import common, gen, spec
from lib.kvquery import KVBench
from lib.sqlquery import SQLBench

ADV_VALUES = ["'", "''", "a'b", "' OR 1=1 --", "\\", "\\'", "x:y", ":w", "a :b", "x\\:y", "%", "_", "--", "/*", ";",
              "\"", "a\x00b", "é", "a b", "x" * 300, "1", "0"]
ADV_NAMES = ["'", "\"", "\\", "%", ":", "é", "_", "-"]


def gen_store(rng, n=None, adversarial=False):
    evs = []
    authors = gen.AUTHORS[:4]
    kinds = [1, 1, 1, 7, 4, 30000, 10002, 20000 if rng.random() < 0.1 else 1]
    times = gen.TIMES[:9]
    long_fam = long_family(rng) if rng.random() < 0.15 else None
    long_name = rng.choice(["t", "r"])
    for i in range(n if n is not None else rng.randint(3, 26)):
        e = gen.gen_event(rng, known_ids=[x["id"] for x in evs], authors=authors, kinds=kinds, times=times)
        while any(x["id"] == e["id"] for x in evs):
            # two *different* events under one id cannot exist (the id is the hash of the event); the reference answers are
            # keyed by id
            e["id"] = gen.mkid(rng)
        if adversarial and rng.random() < 0.5:
            e["tags"].append([rng.choice(ADV_NAMES + ["t", "e"]), rng.choice(ADV_VALUES)])
        if rng.random() < 0.08:
            e["tags"].append(["delegation", rng.choice(authors), "kind=1", "00" * 64])
        if rng.random() < 0.3:
            # two tags of one name whose values are prefixes / substrings of one another: a prefix scan reaches the event
            # through one value, the residual matcher then sees the other
            name = rng.choice(["t", "t", "e", "d"])
            for v in rng.sample(gen.FAMILY, 2):
                e["tags"].append([name, v])
        if long_fam and rng.random() < 0.45:
            e["tags"].append([long_name, rng.choice(long_fam)])
        # stores are built without replacement/deletion semantics getting in the way
        evs.append(e)
    return evs


def long_family(rng):
    """tag values around the sizes at which a backend could be tempted to truncate or to skip the index entry: the longest
    value LMDB can index (470 bytes under a one-letter name: 511-byte keys), one more, and values of 512 / 513 / 600 / 3000
    characters that agree on a long beginning"""
    stem = rng.choice(["L", "https://example.com/" + "p/" * 40])
    def mk(n, tail=""):
        return (stem * (n // len(stem) + 1))[:n - len(tail)] + tail
    return [mk(469), mk(470), mk(470, "z"), mk(471), mk(471, "y"), mk(512), mk(513), mk(513, "a"), mk(513, "b"), mk(600), mk(600, "q"),
            mk(3000)]


def gen_adv_filter(rng, evs):
    f = gen.gen_filter(rng, evs)
    r = rng.random()
    if r < 0.6:
        f["#" + rng.choice(ADV_NAMES + ["t", "e", "p"])] = [rng.choice(ADV_VALUES) for _ in range(rng.choice([1, 1, 2]))]
    elif r < 0.75:
        f["#" + rng.choice(["t", "e"])] = rng.choice([[], [""], ["", ""]])
    return f


class Scenario:
    def __init__(self, report, drv):
        self.report = report
        self.drv = drv
        self.kv = KVBench(report, drv)
        self.sql = SQLBench(report, drv)
        report.coverage["engine"] = self.kv.impl.lmdb.ENGINE

    def close(self):
        self.kv.close()
        self.sql.close()

    def load(self, events):
        self.events = events
        self.by_id = {}
        for e in events:
            try:
                self.by_id.setdefault(bytes.fromhex(e["id"]).hex(), e)
            except ValueError:
                pass
        self.kv.load_store(events)
        self.sql.load_store(events)
        self.kv_stored = set(self.kv.impl.dump_ids()) if hasattr(self.kv.impl, "dump_ids") else \
            {k[2:] for k in self.kv.impl.dump() if k.startswith("00") and len(k) == 66}
        self.sql_stored = self.sql.impl.event_ids()

    # -- reference answers -------------------------------------------------------------------------
    def _pyspec(self, qs, stored, strict):
        out = []
        for i in sorted(stored):
            ev = self.by_id.get(i)
            if ev is not None and any(spec.matches(q, ev, strict) for q in qs):
                out.append(i)
        return out

    def _finish(self, rec, qs, stored, lean_strict, lean_incl):
        ps, pi = self._pyspec(qs, stored, True), self._pyspec(qs, stored, False)
        if lean_strict is not None:
            if sorted(lean_strict) != ps or sorted(lean_incl) != pi:
                raise common.MachineryBroken(
                    "Lean matchesSpec and the Python reference disagree on %r: %r vs %r" % (rec["filters"], sorted(lean_incl), pi))
        rec["spec_strict"], rec["spec_incl"] = set(ps), set(pi)
        rec["ts"] = {i: self.by_id[i]["created_at"] for i in stored if i in self.by_id}
        rec["stored"] = stored
        rec["wellformed"] = all(spec.is_wellformed_conjunction(q) for q in qs)
        return rec

    def ask_kv(self, f, default_limit=None):
        res = self.kv.ask(f, default_limit=default_limit)
        if res is None:
            return None
        rec = {"backend": "kv", "filters": [f], "ids": res["ids"], "in_model": res["in_model"],
               "index": res.get("index"), "limit": res.get("limit"), "unordered": res.get("unordered", False),
               "planned": res["plan"] is not None, "events": self.events}
        return self._finish(rec, [res["q"]], self.kv_stored, res.get("spec_strict"), res.get("spec_incl"))

    def ask_sql(self, fs, default_limit=None):
        res = self.sql.ask(fs, default_limit=default_limit)
        if res is None or not res["cleaned"]:
            return None
        rec = {"backend": "sql", "filters": fs, "ids": res["ids"], "in_model": res["in_model"],
               "limit": res.get("limit"), "text": res.get("text"), "hazard": res.get("hazard", False),
               "planned": res["ids"] is not None, "events": self.events, "cleaned": res["cleaned"]}
        return self._finish(rec, res["cleaned"], self.sql_stored,
                            res.get("spec_strict") if res.get("have_model") else None,
                            res.get("spec_incl") if res.get("have_model") else None)


def replay_payload(rec):
    return {"backend": rec["backend"], "filters": rec["filters"], "events": rec["events"]}
