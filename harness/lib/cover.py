"""
Which lines of the *modelled* functions of /repo did this run of the correspondence check execute?

The theorems are about the Lean model; they reach the Python code only as far as the differential run exercised it.  For every
property the functions the model mirrors are listed below (file:qualname, nested functions included); a line monitor
(sys.monitoring, Python 3.12: each location reports once and is then switched off, so the cost is negligible) records the
executed lines of /repo/nostr_relay, and the evidence file gets, per modelled function, the number of executable lines, how many
of them this run executed, and the line numbers it did not.  A line of a modelled function that no case ever executed is a
place where the tie between model and code is asserted, not checked — the evidence says where those are.  (A modelled function
that no longer exists in the source is reported as such: the model has lost its counterpart.)
"""
import os
import sys

KV, DB, BASE, WEB = "storage/kv.py", "storage/db.py", "storage/base.py", "web.py"

QUERY_KV = [KV + ":planner", KV + ":Index.scanner", KV + ":IdIndex.scanner", KV + ":MultiIndex.scanner", KV + ":MultiIndex.finalize",
            KV + ":matcher", KV + ":compile_match_from_query", KV + ":execute_one_plan", KV + ":Index.to_key", KV + ":TagIndex.to_key",
            KV + ":AuthorKindIndex.to_key", KV + ":KindIndex.to_key", KV + ":PubkeyIndex.to_key", KV + ":IdIndex.to_key"]
QUERY_SQL = [DB + ":Subscription.evaluate_filter", DB + ":Subscription.build_query", DB + ":Subscription.prepare"]
FILTER = [BASE + ":NostrQuery.model_validate", BASE + ":NostrQuery.check_tags", BASE + ":NostrQuery.sort_fields", BASE + ":ids_are_hex"]
WRITE_KV = [KV + ":WriterThread.run", KV + ":WriterThread._post_save", KV + ":WriterThread._delete_event", KV + ":WriterThread._d_value",
            KV + ":Index.write", KV + ":Index.clear", KV + ":IdIndex.write", KV + ":TagIndex.convert", KV + ":CreatedIndex.convert",
            KV + ":KindIndex.convert", KV + ":PubkeyIndex.convert", KV + ":AuthorKindIndex.convert", KV + ":LMDBStorage.add_event",
            KV + ":check_storable", KV + ":encode_event", KV + ":decode_event"]
WRITE_SQL = [DB + ":DBStorage.add_event", DB + ":DBStorage.pre_save", DB + ":DBStorage.post_save", DB + ":DBStorage.process_tags"]
PROTO = [WEB + ":start_client", WEB + ":send_subscriptions", WEB + ":validate_message", BASE + ":BaseStorage.subscribe",
         BASE + ":BaseStorage.unsubscribe", BASE + ":BaseStorage.notify_all_connected", BASE + ":BaseSubscription.notify",
         BASE + ":BaseSubscription.start", BASE + ":BaseSubscription.cancel", DB + ":Subscription.run_query", KV + ":Subscription.run_query"]

MODELLED = {
    "C01": QUERY_KV + QUERY_SQL + FILTER,
    "C02": QUERY_KV + QUERY_SQL + FILTER,
    "C03": ["validators.py:is_signed", "validators.py:get_validator", KV + ":LMDBStorage.add_event", DB + ":DBStorage.add_event",
            BASE + ":BaseStorage.add_service_event"],
    "C04": ["util.py:event_as_json", WEB + ":send_subscriptions", KV + ":encode_event", KV + ":decode_event", DB + ":event_from_tuple",
            WEB + ":ViewEventResource.on_get"],
    "C05": PROTO + [BASE + ":BaseSubscription.check_event"],
    "C06": [WEB + ":start_client"] + WRITE_KV + WRITE_SQL,
    "C07": WRITE_KV + WRITE_SQL,
    "C08": [KV + ":WriterThread._post_save", KV + ":WriterThread._delete_event", DB + ":DBStorage.process_tags"],
    "C09": [KV + ":WriterThread._post_save", KV + ":WriterThread._d_value", DB + ":DBStorage.pre_save", DB + ":DBStorage.post_save"],
    "C10": WRITE_KV + [KV + ":KVGarbageCollector.collect"],
    "C11": QUERY_KV + QUERY_SQL,
    "C12": QUERY_KV + QUERY_SQL,
    "C13": PROTO,
    "C14": ["auth.py:Authenticator.can_do", "auth.py:Authenticator.parse_options", "auth.py:Authenticator.authenticate",
            BASE + ":BaseStorage.subscribe", BASE + ":BaseSubscription.notify", DB + ":DBStorage.get_auth_roles", DB + ":DBStorage.set_auth_roles",
            BASE + ":BaseStorage.get_auth_roles", BASE + ":BaseStorage.set_auth_roles", KV + ":LMDBStorage.add_event", DB + ":DBStorage.add_event"],
    "C15": ["auth.py:Authenticator.check_auth_event", "auth.py:Authenticator.authenticate", "auth.py:Authenticator.get_challenge",
            "auth.py:Authenticator.parse_options"],
    "C16": ["validators.py:is_not_too_large", "validators.py:is_recent", "validators.py:is_certain_kind", "validators.py:is_author_whitelisted",
            "validators.py:is_author_blacklisted", "validators.py:is_pow", "validators.py:is_not_hellthread", "validators.py:is_service_event",
            "validators.py:get_validator", "dynamic_lists.py:is_pubkey_allowed", "dynamic_lists.py:ListBuilder.run_once"],
    "C17": [KV + ":KVGarbageCollector.collect", DB + ":QueryGarbageCollector.collect", BASE + ":BaseGarbageCollector.run_once"],
    "C18": ["rate_limiter.py:RateLimiter.parse_options", "rate_limiter.py:RateLimiter.parse_option", "rate_limiter.py:RateLimiter.evaluate_rules",
            "rate_limiter.py:RateLimiter.is_limited", "rate_limiter.py:RateLimiter.cleanup"],
    "C19": [WEB + ":start_client", WEB + ":validate_message", WEB + ":send_subscriptions", BASE + ":BaseStorage.subscribe",
            BASE + ":BaseStorage.unsubscribe", BASE + ":NostrQuery.model_validate"],
    "C20": ["notifier.py:NotifyServer.handle_notify", "notifier.py:NotifyClient.connect", "notifier.py:NotifyClient.notify",
            BASE + ":BaseStorage.notify_other_processes", KV + ":LMDBStorage._announce_written", KV + ":WriterThread.run"],
}

_TOOL = 3
_seen = set()
_root = None
_on = False


def start(repo):
    """begin recording executed lines of <repo>/nostr_relay (no-op when sys.monitoring is unavailable or taken)"""
    global _root, _on
    mon = getattr(sys, "monitoring", None)
    if mon is None or _on:
        return False
    _root = os.path.join(os.path.realpath(repo), "nostr_relay") + os.sep
    try:
        mon.use_tool_id(_TOOL, "nrverif-cover")
    except ValueError:
        return False

    def on_line(code, line):
        fn = code.co_filename
        if fn.startswith(_root) or os.path.realpath(fn).startswith(_root):
            _seen.add((os.path.realpath(fn), line))
        return mon.DISABLE          # each location reports once

    mon.register_callback(_TOOL, mon.events.LINE, on_line)
    mon.set_events(_TOOL, mon.events.LINE)
    _on = True
    return True


def _code_objects(path):
    """{qualname: [code objects]} of a source file"""
    src = open(path).read()
    top = compile(src, path, "exec")
    out = {}

    def walk(co):
        for c in co.co_consts:
            if hasattr(c, "co_code"):
                out.setdefault(c.co_qualname, []).append(c)
                walk(c)
    walk(top)
    return out


def report(prop_id, repo):
    """per modelled function of the property: executable lines, executed lines, missed line numbers"""
    if not _on:
        return None
    base = os.path.join(os.path.realpath(repo), "nostr_relay")
    per, tot, hit = {}, 0, 0
    cache = {}
    for target in MODELLED.get(prop_id, []):
        rel, qual = target.split(":")
        path = os.path.join(base, rel)
        if path not in cache:
            try:
                cache[path] = _code_objects(path)
            except (OSError, SyntaxError):
                cache[path] = {}
        cos = [c for q, lst in cache[path].items() if q == qual or q.startswith(qual + ".<locals>.") for c in lst]
        if not cos:
            per[target] = {"missing_in_source": True}
            continue
        lines = set()
        for c in cos:
            first = c.co_firstlineno
            for _, _, ln in c.co_lines():
                if ln is not None and ln != first:          # the `def` line itself runs at import time
                    lines.add(ln)
        done = {ln for ln in lines if (os.path.realpath(path), ln) in _seen}
        missed = sorted(lines - done)
        per[target] = {"lines": len(lines), "executed": len(done)}
        if missed:
            per[target]["missed_lines"] = missed[:40]
        tot += len(lines)
        hit += len(done)
    return {"functions": per, "lines": tot, "executed": hit,
            "note": "lines of the modelled functions of /repo executed during this run's correspondence / search (sys.monitoring); "
                    "lines executed only in child processes are not counted"}
