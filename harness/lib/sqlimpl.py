"""
Adapter driving the real nostr_relay.storage.db.DBStorage on SQLite (aiosqlite, in memory) in-process.
Validators are configurable (default: none, so that synthetic unsigned events can be stored);
the authenticator is the real one (disabled unless configured).
"""
import asyncio

from lib import common
from lib.kvimpl import model_event, model_filter  # noqa


class SQLImpl:
    def __init__(self, validators=(), url="sqlite+aiosqlite:///:memory:", loop=None, authentication=None,
                 output_validator=None):
        common.setup_paths()
        from nostr_relay.config import Config
        from nostr_relay.storage import db, get_metadata

        self.db = db
        self.loop = loop or asyncio.new_event_loop()
        asyncio.set_event_loop(self.loop)
        Config.authentication = authentication or {}
        Config.output_validator = output_validator
        Config.storage = {"sqlalchemy.url": url, "validators": list(validators)}
        self.storage = db.DBStorage(dict(Config.storage))
        self.run(self.storage.setup())
        self.metadata = get_metadata()
        self.run(self._create())
        self.victims = []

    async def _create(self):
        async with self.storage.db.begin() as conn:
            await conn.run_sync(self.metadata.create_all)

    def run(self, coro):
        return self.loop.run_until_complete(coro)

    def close(self):
        try:
            self.run(self.storage.close())
            self.run(self.storage.stat_collector.stop())
        except Exception:
            pass

    def reset(self):
        async def wipe():
            async with self.storage.db.begin() as conn:
                await conn.execute(self.storage.EventTable.delete())
                await conn.execute(self.metadata.tables["tags"].delete())
                await conn.execute(self.metadata.tables["auth"].delete())
        self.run(wipe())

    # -- state -------------------------------------------------------------------------------
    def dump(self):
        import sqlalchemy as sa

        async def go():
            async with self.storage.db.connect() as conn:
                ev = (await conn.execute(sa.text("SELECT id FROM events"))).fetchall()
                tg = (await conn.execute(sa.text("SELECT id, name, value FROM tags"))).fetchall()
            return ev, tg
        ev, tg = self.run(go())

        def h(x):
            if isinstance(x, (bytes, memoryview)):
                return bytes(x).hex()
            return str(x).encode("utf-8", "surrogatepass").hex()
        return {"events": sorted(bytes(r[0]).hex() for r in ev),
                "tags": sorted("%s|%s|%s" % (bytes(r[0]).hex(), h(r[1]), h(r[2])) for r in tg)}

    def event_ids(self):
        return set(self.dump()["events"])

    # -- writes ------------------------------------------------------------------------------
    def add(self, ev, auth_token=None):
        """returns (outcome, reason): 'ok:true' | 'ok:false' | 'raises'"""
        before = self.event_ids()
        try:
            event, changed = self.run(self.storage.add_event(dict(ev), auth_token=auth_token))
            out = "ok:true" if changed else "ok:false"
            reason = ""
        except Exception as e:  # StorageError, AuthenticationError, anything
            out, reason = "raises", "%s: %s" % (type(e).__name__, e)
        after = self.event_ids()
        gone = before - after
        return out, reason, gone, after - before

    def gc(self, now, collector=None, overlap=False):
        """one pass at `now`; `collector` = a long-lived QueryGarbageCollector to reuse (as the running relay does);
        `overlap` = the pass runs while another user of the database (a REQ that is still streaming its rows) holds a
        pooled connection, as it does in a running relay"""
        import sqlalchemy as sa

        db = self.db
        orig = db.time
        db.time = lambda: now

        async def go():
            gc = collector or db.QueryGarbageCollector(self.storage)
            if not overlap:
                async with self.storage.db.begin() as conn:
                    return await gc.collect(conn)
            async with self.storage.db.connect() as reader:
                rows = await reader.stream(sa.text("SELECT id FROM events"))
                async for _ in rows:
                    break                      # one row taken, the cursor stays open
                try:
                    async with self.storage.db.begin() as conn:
                        return await gc.collect(conn)
                finally:
                    await rows.close()
        try:
            return self.run(go())
        finally:
            db.time = orig

    def new_collector(self):
        return self.db.QueryGarbageCollector(self.storage)

    # -- queries -----------------------------------------------------------------------------
    def query(self, filters, default_limit=None):
        """answer of a REQ with these raw filter dicts through the real Subscription.build_query and
        run_query; returns (ids in delivery order, sql text or None)"""
        from nostr_relay.storage.base import NostrQuery
        from pydantic import ValidationError
        from nostr_relay.errors import StorageError

        cleaned = []
        for f in filters:
            try:
                cleaned.append(NostrQuery.model_validate(dict(f)))
            except (ValidationError, StorageError):
                pass
        if not cleaned:
            return None, None, []
        # the implementation may mutate the filter objects: keep pristine copies for the model/oracle
        pristine = [q.model_copy(deep=True) for q in cleaned]
        kwargs = {} if default_limit is None else {"default_limit": default_limit}
        sub = self.storage.subscription_class(self.storage, "sub", cleaned, queue=asyncio.Queue(), **kwargs)
        if not sub.prepare():
            return None, None, pristine
        text = str(sub.query)

        async def go():
            out = []
            async for ev in self.storage.run_query(sub.query):
                out.append(ev)
            return out
        events = self.run(go())
        return events, text, pristine
