"""
Storage-API level adapters for histories (C06-C09, C14, C17): the real DBStorage / LMDBStorage objects,
driven through their real `add_event`, `delete_event`, `get_event`, `run_single_query` and garbage
collectors.  The LMDB writer thread is not started; its real `run()` loop is executed synchronously by
the harness after each submission (tasks + a `None` sentinel), so that "after quiescence" is exact.
Broadcasts (`notify_all_connected`) are counted by a wrapper applied from outside.
"""
import asyncio
import shutil

from lib import common


class _Base:
    backend = "?"

    def run(self, coro):
        return self.loop.run_until_complete(coro)

    def _wrap_notify(self):
        self.broadcasts = []
        orig = self.storage.notify_all_connected

        async def wrapped(event):
            self.broadcasts.append(event.id)
            return await orig(event)

        self.storage.notify_all_connected = wrapped

    def add(self, ev, auth_token=None):
        """submit through the real add_event; returns dict(ok, reason, exc)"""
        n0 = len(self.broadcasts)
        res = self.submit(ev, auth_token=auth_token)
        self.quiesce()
        res["broadcast"] = len(self.broadcasts) - n0
        return res

    def submit(self, ev, auth_token=None):
        """the real add_event alone: on LMDB the event is acknowledged and queued for the writer, which has not run yet"""
        try:
            event, changed = self.run(self.storage.add_event(dict(ev), auth_token=auth_token))
            return {"ok": bool(changed), "reason": "" if changed else "duplicate", "exc": None}
        except Exception as e:
            return {"ok": False, "reason": str(e), "exc": type(e).__name__}

    def quiesce(self):
        pass

    def get(self, idhex):
        try:
            return self.run(self.storage.get_event(idhex))
        except Exception:
            return None

    def query(self, filters):
        async def go():
            out = []
            async for ev in self.storage.run_single_query([dict(f) for f in filters]):
                out.append(ev)
            return out
        return self.run(go())


class WriterDied(Exception):
    """an exception escaped the real WriterThread.run(): in the relay the writer thread is dead from here on (every later
    event is acknowledged and never written)"""


class SQLStore(_Base):
    backend = "sql"

    def __init__(self, validators=(), authentication=None, output_validator=None, url="sqlite+aiosqlite:///:memory:",
                 service_key=None):
        from lib.sqlimpl import SQLImpl

        common.setup_paths()
        from nostr_relay.config import Config

        Config.service_privatekey = service_key or ""

        self.impl = SQLImpl(validators=validators, authentication=authentication, output_validator=output_validator, url=url)
        self.loop = self.impl.loop
        self.storage = self.impl.storage
        self._wrap_notify()

    def reset(self):
        self.impl.reset()
        self.broadcasts.clear()

    def ids(self):
        return self.impl.event_ids()

    def dump(self):
        return self.impl.dump()

    def gc(self, now, collector=None):
        return self.impl.gc(now, collector, overlap=getattr(self, "gc_overlap", False))

    def new_collector(self):
        return self.impl.new_collector()

    def delete(self, idhex):
        self.run(self.storage.delete_event(idhex))

    def close(self):
        self.impl.close()


class KVStore(_Base):
    backend = "kv"

    def __init__(self, validators=(), authentication=None, output_validator=None, service_key=None):
        common.setup_paths()
        from nostr_relay.config import Config
        from nostr_relay.storage import kv

        self._args = dict(validators=validators, authentication=authentication, output_validator=output_validator,
                          service_key=service_key)
        Config.service_privatekey = service_key or ""
        self.kv = kv
        self.loop = asyncio.new_event_loop()
        asyncio.set_event_loop(self.loop)
        self.dir = common.scratch_dir("nrkvs-")
        Config.authentication = authentication or {}
        Config.output_validator = output_validator
        Config.storage = {"class": "nostr_relay.storage.kv.LMDBStorage", "path": self.dir, "validators": list(validators),
                          "map_size": 64 << 20}
        kv.analyze = lambda *a, **k: None
        orig_start = kv.WriterThread.start
        kv.WriterThread.start = lambda self_: None          # never start the thread
        try:
            self.storage = kv.LMDBStorage(dict(Config.storage))
            self.run(self.storage.setup())
        finally:
            kv.WriterThread.start = orig_start
        self.writer = self.storage.writer_thread
        self.env = self.storage.db
        self.writer_exceptions = 0
        self._wrap_notify()

    def quiesce(self):
        """run the real writer loop over everything queued"""
        import logging

        orig = logging.Logger.exception
        me = self

        def exc(lg, msg, *a, **k):
            if lg.name == "nostr_relay.writer":
                me.writer_exceptions += 1

        logging.Logger.exception = exc
        try:
            self.writer.queue.put(None)
            self.writer.running = True
            try:
                self.writer.run()
            except Exception as ex:
                raise WriterDied("%s: %s" % (type(ex).__name__, ex)) from ex
        finally:
            logging.Logger.exception = orig

    def reset(self):
        self.close()
        self.__init__(**self._args)

    def dump(self):
        with self.env.begin() as txn:
            return [bytes(k).hex() for k in txn.cursor().iternext(values=False)]

    def ids(self):
        return {k[2:] for k in self.dump() if k.startswith("00") and len(k) == 66}

    def new_collector(self):
        return self.kv.KVGarbageCollector(self.storage)

    def gc(self, now, collector=None):
        kv = self.kv
        orig = kv.time
        kv.time = lambda: now

        async def go():
            gc = collector or kv.KVGarbageCollector(self.storage)
            with self.env.begin() as conn:
                return await gc.collect(conn)
        try:
            n = self.run(go())
        finally:
            kv.time = orig
        self.quiesce()
        return n

    def delete(self, idhex):
        self.run(self.storage.delete_event(idhex))
        self.quiesce()

    def close(self):
        try:
            self.storage.query_pool.shutdown(wait=False)
            self.env.close()
            self.run(self.storage.stat_collector.stop())
        except Exception:
            pass
        shutil.rmtree(self.dir, ignore_errors=True)


def d_value(ev):
    """NIP-33 d-value: first d tag's value, '' when absent or bare"""
    for t in ev["tags"]:
        if t and t[0] == "d":
            return t[1] if len(t) > 1 and isinstance(t[1], str) else ""
    return ""


def address(ev):
    k = ev["kind"]
    if k in (0, 3) or 10000 <= k < 20000:
        return (ev["pubkey"], k, None)
    if 30000 <= k < 40000:
        return (ev["pubkey"], k, d_value(ev))
    return None
