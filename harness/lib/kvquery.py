"""
Query bench for the LMDB backend, shared by C01 / C02 / C11 / C12 (and C08/C09/C17 for retrieval):
loads a store through the real writer, asks a filter through the real NostrQuery validation,
planner and execute_one_plan, and compares plan + answer with the Lean model.  The NIP-01
specification (`matchesSpec`, strict and inclusive reading) is evaluated by the Lean driver.
"""
from lib import common
from lib.kvimpl import KVImpl, model_event, model_filter


class KVBench:
    def __init__(self, report, drv, impl=None):
        self.report = report
        self.drv = drv
        self.impl = impl or KVImpl()
        self.events = []
        self.in_model = True

    def close(self):
        self.impl.close()

    def load_store(self, events):
        """events: list of event dicts, added in order through the real writer"""
        impl = self.impl
        impl.reset()
        Event = impl.kv.Event
        lines = [{"op": "kv.reset"}]
        self.in_model = True
        self.events = []
        tasks = []
        for e in events:
            try:
                ev = Event(**e)
            except Exception:
                continue
            tasks.append(("add", ev))
            me = model_event(e)
            if me is None:
                self.in_model = False
            else:
                lines.append({"op": "kv.task", "task": {"t": "add", "ev": me}})
            self.events.append(e)
        impl.run_tasks(tasks)
        if self.in_model:
            lines.append({"op": "kv.dump"})
            out = self.drv.batch(lines)
            dump = impl.dump()
            if out[-1] != dump:
                self.report.correspondence_break("kv.WriterThread", {"events": events}, {"n": len(dump)}, {"n": len(out[-1])})
                # the model's store is not the implementation's: from here on the reference answers come from the Python
                # reference over the implementation's own store, not from the model
                self.in_model = False
        self.stored = impl.stored()

    def validate(self, fdict):
        from nostr_relay.storage.base import NostrQuery
        from nostr_relay.errors import StorageError
        from pydantic import ValidationError

        try:
            return NostrQuery.model_validate(dict(fdict))
        except (ValidationError, StorageError, ValueError, TypeError):
            return None

    def ask_req(self, fdicts, default_limit=None):
        """a REQ with several filters (at most five are planned): the real planner over the whole list; returns
        [(filter dict, ids the plan made for it delivers, ids the same filter delivers when asked alone)] for the
        filters that are answered at all, or None when a filter is refused"""
        impl = self.impl
        qs = [self.validate(f) for f in fdicts]
        if any(q is None for q in qs):
            return None
        alone = []
        for f in fdicts:
            r = self.ask(f, default_limit=default_limit)
            alone.append(None if r is None or r.get("ids") is None else r)
        # the whole REQ through the real `executor` (planner + one execute_one_plan per plan on the storage's pool, as
        # LMDBStorage.run_query does), so that whatever the plans of one REQ share is shared here too
        import asyncio
        import concurrent.futures
        import logging

        async def go():
            out = []
            with concurrent.futures.ThreadPoolExecutor(max_workers=1) as pool:
                async for plan, events in impl.kv.executor(impl.env, [q.model_copy(deep=True) for q in qs], pool,
                                                           default_limit=default_limit, log=logging.getLogger("nostr_relay.verif.kvq"),
                                                           loop=asyncio.get_running_loop()):
                    out.append([e.id for e in events])
            return out
        try:
            loop = asyncio.new_event_loop()
            try:
                answers = loop.run_until_complete(go())
            finally:
                loop.close()
        except Exception as e:
            self.report.property_failure("the LMDB executor raised %r on a multi-filter REQ" % (e,), {"filters": fdicts}, None)
            return None
        want = [(f, r) for f, r in zip(fdicts, alone) if r is not None]
        if len(answers) != len(want):
            self.report.property_failure(
                "kv: a REQ of %d filters, %d of which are answered when asked alone, got %d plans"
                % (len(fdicts), len(want), len(answers)), {"backend": "kv", "filters": fdicts, "events": self.events}, None)
            return None
        return [(f, a, r) for (f, r), a in zip(want, answers)]

    def ask(self, fdict, default_limit=None):
        """returns None when the filter is rejected or yields no plan; else a dict"""
        q = self.validate(fdict)
        if q is None:
            return None
        impl = self.impl
        pristine = q.model_copy(deep=True)
        try:
            plan = impl.plan(q, default_limit=default_limit)
        except Exception as e:  # planner must not raise
            self.report.property_failure("planner raised %r" % (e,), {"filter": fdict}, None)
            return None
        q = pristine
        mf = model_filter(q) if self.in_model else None
        res = {"filter": fdict, "q": q, "in_model": mf is not None, "plan": plan}
        if mf is not None:
            mplan, mexec, spec = self.drv.batch([
                {"op": "kv.plan", "filter": mf, "default_limit": default_limit, "max_limit": common.MAX_LIMIT},
                {"op": "kv.exec", "filter": mf, "default_limit": default_limit, "max_limit": common.MAX_LIMIT},
                {"op": "kv.spec", "filter": mf}])
            res["spec_strict"], res["spec_incl"], res["ts"] = spec["strict"], spec["incl"], spec["ts"]
        if plan is None:
            if mf is not None and mplan is not None:
                self.report.correspondence_break("kv.planner", {"filter": fdict}, None, mplan)
            res["ids"] = None
            return res
        ids = impl.execute(plan)
        res["ids"] = ids
        res["index"] = impl.index_name(plan)
        res["limit"] = plan.limit
        if mf is not None:
            if mplan is None:
                self.report.correspondence_break("kv.planner", {"filter": fdict, "events": self.events},
                                                 res["index"], None)
                return res
            if mplan["index"] != res["index"] or mplan["limit"] != plan.limit:
                self.report.correspondence_break("kv.planner", {"filter": fdict}, [res["index"], plan.limit],
                                                 [mplan["index"], mplan["limit"]])
            res["unordered"] = mexec["unordered"]
            if mexec["unordered"]:
                # Python set iteration order: compare as sets; with truncation: subset + size
                allm = set(mexec["all"])
                lim = plan.limit
                ok = set(ids) <= allm and len(ids) == len(set(ids)) and \
                    len(ids) == (len(allm) if lim is None else min(lim, len(allm)))
            else:
                ok = ids == mexec["ids"]
            if not ok:
                self.report.correspondence_break(
                    "kv.planner/scanner/execute_one_plan", {"filter": fdict, "events": self.events},
                    {"index": res["index"], "ids": ids}, {"index": mplan["index"], "ids": mexec["ids"]})
        return res
